SPECIFICATION Spec
CONSTANTS
  Bases = {"OCT", "TET", "STRIP8"}
  MaxDrop = 2
  Rot = 1
  EmitJson = TRUE
INVARIANT Sane
INVARIANT Emit
CHECK_DEADLOCK FALSE

------------------------------- MODULE Multitrace -------------------------------
(* Extension beyond the listed properties: the multitrace operator factories of operators/boundary/{laplace,helmholtz, *)
(* maxwell}.multitrace_operator and sparse.multitrace_identity.                                                       *)
(*                                                                                                                   *)
(* Requirement (from the documentation strings): for every documented space_type and for target = None or another   *)
(* grid, the factory returns a 2 x 2 blocked operator whose block (i, j) is the named standalone operator (with the   *)
(* stated sign / scaling) on the stated (domain, range, dual) spaces.  A blocked operator is well formed when the     *)
(* domain is constant per column and range and dual are constant per row.  space kinds are strings; "T:" marks a     *)
(* space on the target grid.                                                                                         *)
EXTENDS Integers, Sequences, FiniteSets, TLC, Json

CONSTANT EmitJson
Families == {"laplace", "helmholtz", "maxwell"}
ScalarTypes == {"p1", "p1-dp0", "p1-dual"}
MaxwellTypes == {"all_rwg", "all_bc", "electric_dual", "magnetic_dual"}
TypesOf(f) == IF f = "maxwell" THEN MaxwellTypes ELSE ScalarTypes
Tgt(s, other) == IF other THEN "T:" \o s ELSE s

\* scalar families: space1 carries the Dirichlet trace, space0 the Neumann trace
Space1(t) == "P1"
Space0(t) == IF t = "p1" THEN "P1" ELSE IF t = "p1-dp0" THEN "DP0" ELSE "DUAL0"
\* blocks as [op, scale, dom, ran, dua]
ScalarBlocks(t, o) ==
    << << [op |-> "double_layer", scale |-> -1, dom |-> Space1(t), ran |-> Tgt(Space1(t), o), dua |-> Tgt(Space0(t), o)],
          [op |-> "single_layer", scale |-> 1, dom |-> Space0(t), ran |-> Tgt(Space1(t), o), dua |-> Tgt(Space0(t), o)] >>,
       << [op |-> "hypersingular", scale |-> 1, dom |-> Space1(t), ran |-> Tgt(Space0(t), o), dua |-> Tgt(Space1(t), o)],
          [op |-> "adjoint_double_layer", scale |-> 1, dom |-> Space0(t), ran |-> Tgt(Space0(t), o), dua |-> Tgt(Space1(t), o)] >> >>
\* Maxwell: (domain, range, dual) per row index as documented
MDom(t) == IF t = "all_rwg" THEN <<"RWG", "RWG">> ELSE IF t = "all_bc" THEN <<"BC", "BC">> ELSE IF t = "electric_dual" THEN <<"RWG", "BC">> ELSE <<"BC", "RWG">>
MRan(t) == IF t = "all_rwg" THEN <<"BC", "BC">> ELSE IF t = "all_bc" THEN <<"RWG", "RWG">> ELSE IF t = "electric_dual" THEN <<"RWG", "BC">> ELSE <<"BC", "RWG">>
MDua(t) == IF t = "all_rwg" THEN <<"SNC", "SNC">> ELSE IF t = "all_bc" THEN <<"RBC", "RBC">> ELSE IF t = "electric_dual" THEN <<"RBC", "SNC">> ELSE <<"SNC", "RBC">>
MaxwellBlocks(t, o) ==
    << << [op |-> "magnetic_field", scale |-> 1, dom |-> MDom(t)[1], ran |-> Tgt(MRan(t)[1], o), dua |-> Tgt(MDua(t)[1], o)],
          [op |-> "electric_field", scale |-> 1, dom |-> MDom(t)[2], ran |-> Tgt(MRan(t)[1], o), dua |-> Tgt(MDua(t)[1], o)] >>,
       << [op |-> "electric_field", scale |-> -1, dom |-> MDom(t)[1], ran |-> Tgt(MRan(t)[2], o), dua |-> Tgt(MDua(t)[2], o)],
          [op |-> "magnetic_field", scale |-> 1, dom |-> MDom(t)[2], ran |-> Tgt(MRan(t)[2], o), dua |-> Tgt(MDua(t)[2], o)] >> >>
Blocks(f, t, o) == IF f = "maxwell" THEN MaxwellBlocks(t, o) ELSE ScalarBlocks(t, o)

VARIABLES fam, typ, other
vars == <<fam, typ, other>>
Init == fam \in Families /\ typ \in TypesOf(fam) /\ other \in BOOLEAN
Next == UNCHANGED vars
Spec == Init /\ [][Next]_vars

\* well-formedness of the documented tables: a blocked operator needs one domain per column and one range / dual per row
WellFormed == LET B == Blocks(fam, typ, other) IN
    /\ \A j \in 1..2 : B[1][j].dom = B[2][j].dom
    /\ \A i \in 1..2 : B[i][1].ran = B[i][2].ran /\ B[i][1].dua = B[i][2].dua
\* on one grid the square of the operator (Calderon projector identities) is typed: range spaces = domain spaces
\* (not for the Maxwell types all_rwg / all_bc, whose documented range is the barycentric counterpart of the domain)
Squarable == (~other /\ typ \notin {"all_rwg", "all_bc"}) => LET B == Blocks(fam, typ, other) IN \A i \in 1..2 : B[i][1].ran = B[1][i].dom
\* Maxwell electric-field blocks need an RWG-type domain and an SNC-type dual (BC / RBC are their barycentric counterparts)
EdgeKinds == fam = "maxwell" => LET B == Blocks(fam, typ, other) IN \A i, j \in 1..2 :
    /\ B[i][j].dom \in {"RWG", "BC"}
    /\ B[i][j].dua \in {"SNC", "RBC", "T:SNC", "T:RBC"}
Emit == EmitJson => PrintT("OBL " \o ToJson([fam |-> fam, typ |-> typ, other |-> other, blocks |-> Blocks(fam, typ, other)]))
=============================================================================

------------------------------- MODULE FmmGlue -------------------------------
(***************************************************************************)
(* C17.  The glue between function spaces and a point-source far-field     *)
(* evaluator (the FMM backend), in three parts.                            *)
(*                                                                         *)
(* (1) Index maps.  Every grid element e carries nq quadrature points with *)
(*     global point id nq*(e-1)+q (Grid.map_to_point_cloud, all elements   *)
(*     of the grid).  The map from the local coefficients of a space with  *)
(*     support S to point charges has one entry per (e in S, local         *)
(*     function i, point q), stored at POSITION pos(e,i,q) of three        *)
(*     arrays of length nsh*nq*|S|.  Requirement PositionsInBounds and     *)
(*     PositionsDistinct; the point ids touched are exactly those of the   *)
(*     support elements.  IndexByElement = TRUE transcribes                *)
(*     space.py:843-861 as written (positions computed from the element    *)
(*     id), FALSE the positions computed from the rank of e in S.          *)
(*                                                                         *)
(* (2) Cache keys.  An evaluator built for (grids, mode, wavenumber,        *)
(*     quadrature order, expansion order, ncrit, depth) may be reused only *)
(*     for a request with the same values.  KeyFields is the set of        *)
(*     request fields that form the cache key; a state machine of          *)
(*     requests, parameter changes and cache clears checks that the        *)
(*     interface handed out was built for the request that asked for it.   *)
(*                                                                         *)
(* (3) Backend protocol.  Per tree:  setup, then any number of rounds      *)
(*     update_charges -> clear_values -> evaluate.  FmmTrace.tla validates *)
(*     the calls recorded by the stand-in backend against it.              *)
(***************************************************************************)
EXTENDS Integers, Sequences, FiniteSets, TLC

CONSTANTS NElem, NQ, NSh, IndexByElement, KeyFields, Orders, Depths, MaxSteps

VARIABLES part, sup, cache, params, handed, steps
vars == <<part, sup, cache, params, handed, steps>>

\* ---------------- (1) index maps
Rank(S, e) == Cardinality({x \in S : x < e})            \* 0-based position of e in the sorted support
Base(S, e) == IF IndexByElement THEN (e - 1) * NSh * NQ ELSE Rank(S, e) * NSh * NQ
Pos(S, e, i, q) == Base(S, e) + (i - 1) * NQ + q          \* 1-based position in the data arrays
Slots(S) == S \X (1..NSh) \X (1..NQ)
PositionsInBounds(S) == \A s \in Slots(S) : Pos(S, s[1], s[2], s[3]) \in 1..(NSh * NQ * Cardinality(S))
PositionsDistinct(S) == \A s \in Slots(S), t \in Slots(S) : s # t => Pos(S, s[1], s[2], s[3]) # Pos(S, t[1], t[2], t[3])
PointId(e, q) == NQ * (e - 1) + q
PointsTouched(S) == {PointId(s[1], s[3]) : s \in Slots(S)}
PointsOfSupportOnly(S) == PointsTouched(S) = {PointId(e, q) : e \in S, q \in 1..NQ}

\* ---------------- (2) cache keys: a state machine over requests, parameter changes and cache clears
\* The process holds the current parameter values (quadrature order, depth; expansion order and ncrit are fixed here) and a cache
\* key -> interface; an interface remembers the request it was BUILT for.  Every operator creation asks for an interface:
\*   Request(g)   look up Key(current request); on a miss build a new interface for the current request and store it
\*   SetOrder / SetDepth   the user changes a global parameter between two operators
\*   Clear        clear_fmm_cache()
\* Requirement CacheSound: the interface handed out was built for exactly the request that asked for it.
NoHand == [asked |-> "none", built |-> "none"]
AllFields == {"grid", "mode", "k", "order", "expansion", "ncrit", "depth"}
Key(r) == [f \in KeyFields |-> r[f]]
Current(g) == [grid |-> g, mode |-> "laplace", k |-> 0, order |-> params.order, expansion |-> 5, ncrit |-> 400, depth |-> params.depth]

Init ==
    \/ /\ part = "index" /\ sup \in (SUBSET (1..NElem)) \ {{}} /\ cache = <<>> /\ params = [order |-> 4, depth |-> 4] /\ handed = NoHand /\ steps = 0
    \/ /\ part = "cache" /\ sup = {} /\ cache = <<>> /\ params = [order |-> 4, depth |-> 4] /\ handed = NoHand /\ steps = 0
Request(g) ==
    /\ part = "cache" /\ steps < MaxSteps
    /\ LET r == Current(g)
           hit == \E n \in 1..Len(cache) : cache[n].key = Key(r)
       IN IF hit
          THEN /\ handed' = [asked |-> r, built |-> (cache[CHOOSE n \in 1..Len(cache) : cache[n].key = Key(r)]).built]
               /\ UNCHANGED cache
          ELSE /\ cache' = Append(cache, [key |-> Key(r), built |-> r])
               /\ handed' = [asked |-> r, built |-> r]
    /\ steps' = steps + 1 /\ UNCHANGED <<part, sup, params>>
SetOrder(o) == part = "cache" /\ steps < MaxSteps /\ o # params.order /\ params' = [params EXCEPT !.order = o] /\ steps' = steps + 1 /\ UNCHANGED <<part, sup, cache, handed>>
SetDepth(d) == part = "cache" /\ steps < MaxSteps /\ d # params.depth /\ params' = [params EXCEPT !.depth = d] /\ steps' = steps + 1 /\ UNCHANGED <<part, sup, cache, handed>>
Clear == part = "cache" /\ steps < MaxSteps /\ cache # <<>> /\ cache' = <<>> /\ steps' = steps + 1 /\ UNCHANGED <<part, sup, params, handed>>
Next == (\E g \in {1, 2} : Request(g)) \/ (\E o \in Orders : SetOrder(o)) \/ (\E d \in Depths : SetDepth(d)) \/ Clear
Spec == Init /\ [][Next]_vars

CacheSound == part = "cache" => handed.built = handed.asked
\* a cleared cache never hands out an interface built before the clear (implied by CacheSound; stated for the history that uses clear)
IndexMapsSound == part = "index" => (PositionsInBounds(sup) /\ PositionsDistinct(sup) /\ PointsOfSupportOnly(sup))
=============================================================================

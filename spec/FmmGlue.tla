------------------------------- MODULE FmmGlue -------------------------------
(***************************************************************************)
(* C17.  The glue between function spaces and a point-source far-field     *)
(* evaluator (the FMM backend), in three parts.                            *)
(*                                                                         *)
(* (1) Index maps.  Every grid element e carries nq quadrature points with *)
(*     global point id nq*(e-1)+q (Grid.map_to_point_cloud, all elements   *)
(*     of the grid).  The map from the local coefficients of a space with  *)
(*     support S to point charges has one entry per (e in S, local         *)
(*     function i, point q), stored at POSITION pos(e,i,q) of three        *)
(*     arrays of length nsh*nq*|S|.  Requirement PositionsInBounds and     *)
(*     PositionsDistinct; the point ids touched are exactly those of the   *)
(*     support elements.  IndexByElement = TRUE transcribes                *)
(*     space.py:843-861 as written (positions computed from the element    *)
(*     id), FALSE the positions computed from the rank of e in S.          *)
(*                                                                         *)
(* (2) Cache keys.  An evaluator built for (grids, mode, wavenumber,        *)
(*     quadrature order, expansion order, ncrit, depth) may be reused only *)
(*     for a request with the same values.  KeyFields is the set of        *)
(*     request fields that form the cache key; the requirement             *)
(*     CacheSound says that two requests with equal keys are equal.        *)
(*                                                                         *)
(* (3) Backend protocol.  Per tree:  setup, then any number of rounds      *)
(*     update_charges -> clear_values -> evaluate.  FmmTrace.tla validates *)
(*     the calls recorded by the stand-in backend against it.              *)
(***************************************************************************)
EXTENDS Integers, Sequences, FiniteSets, TLC

CONSTANTS NElem, NQ, NSh, IndexByElement, KeyFields, Orders, Depths

VARIABLES part, sup, req1, req2
vars == <<part, sup, req1, req2>>

\* ---------------- (1) index maps
Rank(S, e) == Cardinality({x \in S : x < e})            \* 0-based position of e in the sorted support
Base(S, e) == IF IndexByElement THEN (e - 1) * NSh * NQ ELSE Rank(S, e) * NSh * NQ
Pos(S, e, i, q) == Base(S, e) + (i - 1) * NQ + q          \* 1-based position in the data arrays
Slots(S) == S \X (1..NSh) \X (1..NQ)
PositionsInBounds(S) == \A s \in Slots(S) : Pos(S, s[1], s[2], s[3]) \in 1..(NSh * NQ * Cardinality(S))
PositionsDistinct(S) == \A s \in Slots(S), t \in Slots(S) : s # t => Pos(S, s[1], s[2], s[3]) # Pos(S, t[1], t[2], t[3])
PointId(e, q) == NQ * (e - 1) + q
PointsTouched(S) == {PointId(s[1], s[3]) : s \in Slots(S)}
PointsOfSupportOnly(S) == PointsTouched(S) = {PointId(e, q) : e \in S, q \in 1..NQ}

\* ---------------- (2) cache keys
AllFields == {"grid", "mode", "k", "order", "expansion", "ncrit", "depth"}
Requests == [grid : {1, 2}, mode : {"laplace"}, k : {0}, order : Orders, expansion : {5}, ncrit : {400}, depth : Depths]
Key(r) == [f \in KeyFields |-> r[f]]
CacheSound == part = "cache" => (Key(req1) = Key(req2) => req1 = req2)

Init ==
    \/ /\ part = "index" /\ sup \in (SUBSET (1..NElem)) \ {{}} /\ req1 = <<>> /\ req2 = <<>>
    \/ /\ part = "cache" /\ sup = {} /\ req1 \in Requests /\ req2 \in Requests
Next == FALSE /\ UNCHANGED vars
Spec == Init /\ [][Next]_vars

IndexMapsSound == part = "index" => (PositionsInBounds(sup) /\ PositionsDistinct(sup) /\ PointsOfSupportOnly(sup))
=============================================================================

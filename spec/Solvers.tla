------------------------------- MODULE Solvers -------------------------------
(***************************************************************************)
(* C15.  The solver wrappers (lu, gmres, cg, compute_lu_factors) as a      *)
(* pipeline  Pack -> Solve -> Unpack -> Return  over the block structure   *)
(* of the operator.  An operator has block rows i (range_i, dual_i) and    *)
(* block columns j (domain_j); every space has its own dimension.          *)
(*                                                                         *)
(* Requirement                                                             *)
(*   RhsLayout       weak form: the right-hand side vector is the          *)
(*                   concatenation of the projections of b_i onto dual_i   *)
(*                   (dimension of dual_i each); strong form: of the       *)
(*                   coefficients of b_i in range_i                        *)
(*   SolutionLayout  the solution vector is cut at the dimensions of the   *)
(*                   domain spaces and the k-th piece becomes a function   *)
(*                   of domain_k                                           *)
(*   RhsKeepsComplex the stacked right-hand side is complex iff an entry is  *)
(*   SettingsHandedOn restart and maxiter reach SciPy as the caller gave them *)
(*   ReturnShape     (solution, info [, residuals] [, count]) in this      *)
(*                   order; len(residuals) = count = number of callbacks   *)
(* Algorithm side: the offset arithmetic of projections_from_grid_         *)
(* functions_list / coefficients_from_... / grid_function_list_from_       *)
(* coefficients (blocked_operator.py) transcribed; TLC checks that it      *)
(* meets the requirement for every block shape up to 2x2 with independent  *)
(* dimensions.                                                             *)
(***************************************************************************)
EXTENDS Integers, Sequences, FiniteSets, TLC, Json

CONSTANTS Dims,          \* candidate dimensions, e.g. {2, 3, 5}
          Solvers_,      \* subset of {"lu", "lu_factors", "gmres", "cg"}
          DualDims,      \* dimensions realised by dual-grid spaces: their dof count on the (barycentric) grid differs from the global one
          SliceBy,       \* "global" (as written: space.global_dof_count) or "grid" (negative configuration: space.grid_dof_count)
          SwapBlockedSettings,   \* FALSE as written; TRUE (negative configuration): blocked gmres hands (maxiter, restart) on in the wrong order
          DtypeRule,     \* "all" as written: the stacked right-hand side is complex as soon as one entry is; "last" (negative configuration)
          EmitJson

VARIABLES cfg, pc, rhsOff, solOff, ret, backend, rhsType
vars == <<cfg, pc, rhsOff, solOff, ret, backend, rhsType>>
\* iteration settings of a call: "none" (argument omitted) or one of two distinct values
Settings == {[restart |-> "none", maxiter |-> "none"], [restart |-> "a", maxiter |-> "b"]}
GridLen(d) == IF d \in DualDims THEN 2 * d ELSE d
SliceLen(d) == IF SliceBy = "global" THEN d ELSE GridLen(d)

Shapes == {<<1, 1>>, <<2, 2>>, <<1, 2>>, <<2, 1>>}
Configs ==
    {[solver |-> s, blocked |-> b, shape |-> sh, strong |-> st, rr |-> rr, rc |-> rc,
      dom |-> dm, ran |-> rn, dua |-> du, settings |-> se, rhsdt |-> dt] :
        dt \in [1..2 -> {"r", "c"}], se \in Settings, s \in Solvers_, b \in BOOLEAN, sh \in Shapes, st \in BOOLEAN, rr \in BOOLEAN, rc \in BOOLEAN,
        dm \in [1..2 -> Dims], rn \in [1..2 -> Dims], du \in [1..2 -> Dims]}

\* a system is solvable only if the total dimensions agree; cg and the direct solvers take square systems
RECURSIVE SumTo(_, _)
SumTo(f, n) == IF n = 0 THEN 0 ELSE f[n] + SumTo(f, n - 1)
Rows(c) == c.shape[1]
Cols(c) == c.shape[2]
Valid(c) ==
    /\ (~c.blocked => c.shape = <<1, 1>>)
    /\ (c.solver = "cg" => ~c.blocked)
    /\ (c.solver \in {"lu", "lu_factors"} => ~c.strong /\ ~c.rr /\ ~c.rc)
    /\ ((~c.blocked \/ c.strong \/ c.solver = "cg") => c.rhsdt = [i \in 1..2 |-> "r"])      \* entry dtypes are varied for the stacked weak right-hand sides only
    /\ (\A i \in (c.shape[1] + 1)..2 : c.rhsdt[i] = "r")
    /\ (c.solver # "gmres" => c.settings.restart = "none" /\ c.settings.maxiter = "none")    \* restart exists for gmres only; one setting elsewhere
    /\ (IF c.strong THEN SumTo(c.ran, Rows(c)) = SumTo(c.dom, Cols(c)) ELSE SumTo(c.dua, Rows(c)) = SumTo(c.dom, Cols(c)))
    /\ (c.strong => \A i \in 1..Rows(c) : c.ran[i] = c.dua[i])          \* square mass matrices
    /\ (\A i \in (Rows(c) + 1)..2 : c.ran[i] = 2 /\ c.dua[i] = 2) /\ (\A j \in (Cols(c) + 1)..2 : c.dom[j] = 2)  \* canonical unused entries

\* (nested quantifiers instead of cfg \in {c \in Configs : Valid(c)}: TLC enumerates them without building the set of all records)
Init == /\ \E dt \in [1..2 -> {"r", "c"}], se \in Settings, s \in Solvers_, b \in BOOLEAN, sh \in Shapes, st \in BOOLEAN, rr \in BOOLEAN, rc \in BOOLEAN,
             dm \in [1..2 -> Dims], rn \in [1..2 -> Dims], du \in [1..2 -> Dims] :
             LET c == [solver |-> s, blocked |-> b, shape |-> sh, strong |-> st, rr |-> rr, rc |-> rc,
                       dom |-> dm, ran |-> rn, dua |-> du, settings |-> se, rhsdt |-> dt]
             IN Valid(c) /\ cfg = c
        /\ pc = "pack" /\ rhsOff = <<>> /\ solOff = <<>> /\ ret = <<>> /\ backend = [restart |-> "unset", maxiter |-> "unset"] /\ rhsType = "unset"

\* projections_from_grid_functions_list: piece i has the length of b_i.projections(dual_i), i.e. dim(dual_i);
\* coefficients_from_grid_functions_list: piece i has item.space.global_dof_count, i.e. dim(range_i)
Pack ==
    /\ pc = "pack"
    /\ LET len(i) == IF cfg.strong THEN cfg.ran[i] ELSE cfg.dua[i]
           RECURSIVE off(_)
           off(i) == IF i = 1 THEN 0 ELSE off(i - 1) + len(i - 1)
       IN rhsOff' = [i \in 1..Rows(cfg) |-> <<off(i), off(i) + len(i)>>]
    \* dtype of the stacked vector: promoted over every entry (projections_from_grid_functions_list accumulates promote_types)
    /\ rhsType' = IF DtypeRule = "all" THEN (IF \E i \in 1..Rows(cfg) : cfg.rhsdt[i] = "c" THEN "c" ELSE "r") ELSE cfg.rhsdt[Rows(cfg)]
    /\ pc' = "solve" /\ UNCHANGED <<cfg, solOff, ret, backend>>
\* the call into SciPy: scipy.sparse.linalg.gmres(A_op, b_vec, rtol=tol, restart=restart, maxiter=maxiter, ...); the blocked variant
\* goes through one more positional call (_gmres_block_op_imp(A, b, tol, restart, maxiter, ...))
Solve == /\ pc = "solve"
         /\ backend' = IF cfg.blocked /\ SwapBlockedSettings THEN [restart |-> cfg.settings.maxiter, maxiter |-> cfg.settings.restart]
                        ELSE [restart |-> cfg.settings.restart, maxiter |-> cfg.settings.maxiter]
         /\ pc' = "unpack" /\ UNCHANGED <<cfg, rhsOff, solOff, ret, rhsType>>
\* grid_function_list_from_coefficients: piece k has space.global_dof_count of domain_k
Unpack ==
    /\ pc = "unpack"
    /\ LET RECURSIVE off(_)
           off(k) == IF k = 1 THEN 0 ELSE off(k - 1) + SliceLen(cfg.dom[k - 1])
       IN solOff' = [k \in 1..Cols(cfg) |-> <<off(k), off(k) + SliceLen(cfg.dom[k])>>]
    /\ pc' = "return" /\ UNCHANGED <<cfg, rhsOff, ret, backend, rhsType>>
Return ==
    /\ pc = "return"
    /\ ret' = IF cfg.solver \in {"lu", "lu_factors"} THEN <<"solution">>
              ELSE <<"solution", "info">> \o (IF cfg.rr THEN <<"residuals">> ELSE <<>>) \o (IF cfg.rc THEN <<"count">> ELSE <<>>)
    /\ pc' = "done" /\ UNCHANGED <<cfg, rhsOff, solOff, backend, rhsType>>
Next == Pack \/ Solve \/ Unpack \/ Return
Spec == Init /\ [][Next]_vars

\* requirement
Tiles(offs, total) ==
    /\ offs[1][1] = 0 /\ offs[Len(offs)][2] = total
    /\ \A i \in 1..(Len(offs) - 1) : offs[i][2] = offs[i + 1][1]
RhsLayout == pc \in {"solve", "unpack", "return", "done"} =>
    /\ Tiles(rhsOff, IF cfg.strong THEN SumTo(cfg.ran, Rows(cfg)) ELSE SumTo(cfg.dua, Rows(cfg)))
    /\ \A i \in 1..Rows(cfg) : rhsOff[i][2] - rhsOff[i][1] = (IF cfg.strong THEN cfg.ran[i] ELSE cfg.dua[i])
SolutionLayout == pc \in {"return", "done"} =>
    /\ Tiles(solOff, SumTo(cfg.dom, Cols(cfg)))
    /\ \A k \in 1..Cols(cfg) : solOff[k][2] - solOff[k][1] = cfg.dom[k]
    /\ solOff[Cols(cfg)][2] = rhsOff[Rows(cfg)][2]                  \* the system is square as a whole
\* no entry of the right-hand side loses its imaginary part when the entries are stacked
RhsKeepsComplex == pc \in {"solve", "unpack", "return", "done"} => (rhsType = "c" <=> \E i \in 1..Rows(cfg) : cfg.rhsdt[i] = "c")
\* the iteration settings reach the backend as the caller gave them
SettingsHandedOn == pc \in {"unpack", "return", "done"} => backend = cfg.settings
ReturnShape == pc = "done" =>
    /\ ret[1] = "solution"
    /\ (cfg.solver \in {"gmres", "cg"} => ret[2] = "info" /\ Len(ret) = 2 + (IF cfg.rr THEN 1 ELSE 0) + (IF cfg.rc THEN 1 ELSE 0))
    /\ (cfg.rr /\ cfg.rc => ret[3] = "residuals" /\ ret[4] = "count")

Obligation == [cfg |-> cfg, rhs |-> rhsOff, sol |-> solOff, ret |-> ret]
Emit == (EmitJson /\ pc = "done") => PrintT("OBL " \o ToJson(Obligation))
=============================================================================

SPECIFICATION Spec
CONSTANTS
  EmitJson = TRUE
INVARIANT WellFormed
INVARIANT Squarable
INVARIANT EdgeKinds
INVARIANT Emit
CHECK_DEADLOCK FALSE

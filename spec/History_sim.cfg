SPECIFICATION Spec
CONSTANTS
  Slots = {1, 2}
  Kinds = {"slp", "hyp", "idt", "pot", "fmm", "mhyp"}
  RegVals = {1, 4}
  SingVals = {3, 4}
  MassCacheKeyed = TRUE
  MassHonoursExplicit = TRUE
  FmmCacheKeyed = TRUE
  MaxDepth = 7
  EmitJson = TRUE
INVARIANT TypeOK




CHECK_DEADLOCK FALSE
INVARIANT Emit

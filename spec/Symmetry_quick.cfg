SPECIFICATION Spec
CONSTANTS
  Bases = {"OCT", "STRIP8", "TET"}
  CellSets <- CellsQuick
  Actions <- ActionsQuick
  MaxDepth = 1
  EmitJson = TRUE
INVARIANT MapsConsistent
INVARIANT GeometryFollows
INVARIANT PlanPreserved
INVARIANT OrientationRule
INVARIANT Emit
CHECK_DEADLOCK FALSE

SPECIFICATION Spec
CONSTANTS
  Bases = {"OCT", "STRIP8"}
  MaxDrop = 0
  Kinds = {"DP0", "DP1", "P1", "RWG"}
  Rot = 1
  SupportModes = {"all", "seg", "sup"}
  EmitJson = TRUE
INVARIANT InputSane
INVARIANT AlgoMeetsReq
INVARIANT RWGSigns
INVARIANT AliasOwn
INVARIANT ColouringValid
INVARIANT ColouringComplete
INVARIANT Emit
CHECK_DEADLOCK FALSE

---------------------------- MODULE HistoryTrace ----------------------------
(***************************************************************************)
(* Trace validation for C18 (binding B).  A trace is a sequence of API     *)
(* calls executed on the real library together with the OBSERVED effective *)
(* inputs of each result (obtained by matching the returned matrix against *)
(* the table a fresh interpreter computes).  Each event must be the        *)
(* corresponding action of History.tla and the action's own observation    *)
(* (last'.res) must equal the observed one; the first event for which this *)
(* fails ends the behaviour with a verdict naming what the specification   *)
(* predicts and what was observed.                                         *)
(***************************************************************************)
EXTENDS History, IOUtils

Traces == JsonDeserialize(IOEnv.TRACE_FILE).traces

VARIABLES tid, l, verdict
tvars == <<vars, tid, l, verdict>>

T == Traces[tid].events

TraceInit == Init /\ tid \in 1..Len(Traces) /\ l = 1 /\ verdict = "running"

Match(e) ==
    CASE e.call = "set_global"    -> SetGlobal(e.arg[1], e.arg[2])
      [] e.call = "mutate_params" -> Mutate(e.arg[1], e.arg[2])
      [] e.call = "create"        -> Create(e.slot, e.arg[1], e.arg[2])
      [] e.call = "weak_form"     -> WeakForm(e.slot) \/ FmmWeakForm(e.slot)
      [] e.call = "clear_fmm"     -> ClearFmm
      [] e.call = "strong_form"   -> StrongForm(e.slot)
      [] e.call = "mass_matrix"   -> MassMatrix
      [] e.call = "evaluate"      -> Evaluate(e.slot)
      [] OTHER -> FALSE

Step ==
    /\ verdict = "running" /\ l <= Len(T)
    /\ Match(T[l])
    /\ l' = l + 1
    \* T[l].res is the list of candidate observations (a result can match several table entries, e.g. M^-1 M = I)
    /\ verdict' = IF \E k \in 1..Len(T[l].res) : T[l].res[k] = last'.res THEN "running"
                  ELSE "mismatch at event " \o ToString(l) \o " (" \o T[l].call \o "): specification " \o ToString(last'.res)
                       \o ", observed one of " \o ToString(T[l].res)
    /\ UNCHANGED tid

Finish ==
    /\ verdict = "running" /\ l = Len(T) + 1
    /\ verdict' = "accept"
    /\ UNCHANGED <<vars, tid, l>>

\* an event whose action is not enabled at all (e.g. weak_form of a slot that was never created)
Stuck ==
    /\ verdict = "running" /\ l <= Len(T) /\ ~ENABLED Step
    /\ verdict' = "event " \o ToString(l) \o " (" \o T[l].call \o ") is not enabled in the specification"
    /\ UNCHANGED <<vars, tid, l>>

TraceNext == Step \/ Finish \/ Stuck
TraceSpec == TraceInit /\ [][TraceNext]_tvars

Report == verdict # "running" => PrintT("TRC " \o ToJson([id |-> Traces[tid].id, verdict |-> verdict, at |-> l]))
=============================================================================

----------------------------- MODULE SpaceModel -----------------------------
(***************************************************************************)
(* C09 / C16 (colouring).  Behaviours: choose a grid of universe U1, a     *)
(* support selection (segments or support_elements), the option pair       *)
(* (include_boundary_dofs, truncate_at_segment_edge) and a space kind; run *)
(* the library's DOF-map algorithm (transcribed from                       *)
(* scalar_spaces._compute_p1_dof_map, maxwell_spaces._compute_rwg0_space_  *)
(* data -- which mutates `support` while it iterates over a snapshot of it *)
(* -- and space._compute_color_map), stop.                                 *)
(*                                                                         *)
(* Invariants: the algorithm refines the requirement module Spaces.tla     *)
(* (DOF entities, attachment slots, signs, support, inverse maps,          *)
(* artificial slots alias an own DOF) and the greedy colouring is valid    *)
(* after every step.  Terminal states are emitted as obligations.          *)
(***************************************************************************)
EXTENDS Spaces, Universe, SequencesExt, FiniteSetsExt, Json

CONSTANTS Bases, MaxDrop,      \* meshes: base with at most MaxDrop elements removed
          Kinds,               \* subset of {"DP0","DP1","P1","RWG"}
          Rot,                 \* rotation pattern applied to every mesh
          SupportModes,        \* subset of {"all","seg","sup"}
          EmitJson

VARIABLES inp, el, xyz, dom, S0, pc, sup, edgeDof, cnt, pos, hasDof, l2g, mult, col

vars == <<inp, el, xyz, dom, S0, pc, sup, edgeDof, cnt, pos, hasDof, l2g, mult, col>>

SortedSeq(S) == SetToSortSeq(S, <)
RotTri(t, k) == IF k = 0 THEN t ELSE IF k = 1 THEN <<t[2], t[3], t[1]>> ELSE <<t[3], t[1], t[2]>>
DomOf(i) == (i % 3) * 5

SubEl(base, sub, r) ==
    LET s == SortedSeq(sub)
        raw == [i \in 1..Len(s) |-> RotTri(BaseEl(base)[s[i]], (s[i] * r) % 3)]
        used == UNION {{raw[i][1], raw[i][2], raw[i][3]} : i \in 1..Len(s)}
        ren(v) == Cardinality({u \in used : u <= v})
    IN [i \in 1..Len(s) |-> <<ren(raw[i][1]), ren(raw[i][2]), ren(raw[i][3])>>]
SubXyz(base, sub) ==
    LET used == UNION {{BaseEl(base)[i][1], BaseEl(base)[i][2], BaseEl(base)[i][3]} : i \in sub}
        us == SortedSeq(used)
    IN [i \in 1..Len(us) |-> BaseXyz(base)[us[i]]]
SubDom(sub) == LET s == SortedSeq(sub) IN [i \in 1..Len(s) |-> DomOf(s[i])]

MeshSubs(base) == LET n == Len(BaseEl(base)) IN {s \in SUBSET (1..n) : Cardinality(s) >= n - MaxDrop /\ s # {}}

\* support selections for a mesh with n elements and domain vector d
SegSets == (SUBSET {0, 5, 10}) \ {{}}
SupSets(n) == {s \in {{n}, {1, n}, 2..n, {2}, {e \in 1..n : e % 2 = 0}, (1..n) \ {2}} : s # {} /\ s \subseteq 1..n}
Selections(n) ==
    {[mode |-> "all", segs |-> {}, supp |-> {}]}
    \cup {[mode |-> "seg", segs |-> g, supp |-> {}] : g \in SegSets}
    \cup {[mode |-> "sup", segs |-> {}, supp |-> s] : s \in SupSets(n)}

Selected(d, sel) ==
    IF sel.mode = "all" THEN DOMAIN d
    ELSE IF sel.mode = "seg" THEN {e \in DOMAIN d : d[e] \in sel.segs}
    ELSE sel.supp

OptPairs(kind) == IF kind \in {"DP0", "DP1"} THEN {<<FALSE, TRUE>>} ELSE BOOLEAN \X BOOLEAN

Inputs ==
    UNION {UNION {{[base |-> b, sub |-> s, kind |-> kd, sel |-> sl, ibd |-> o[1], trunc |-> o[2]] :
                      sl \in {x \in Selections(Cardinality(s)) : x.mode \in SupportModes}, kd \in Kinds, o \in OptPairs("P1")}
                  : s \in MeshSubs(b)} : b \in Bases}

---------------------------------------------------------------------------
N == Len(el)
Manifold == IsManifoldEdge(el) /\ \A e \in EIdx(el), f \in EIdx(el) : e # f => NShared(el, e, f) < 3

\* Requirement side for this input
ReqDofs ==
    IF inp.kind = "DP0" THEN DP0Dofs(S0)
    ELSE IF inp.kind = "DP1" THEN DP1Dofs(S0)
    ELSE IF inp.kind = "P1" THEN P1DofVerts(el, S0, inp.ibd)
    ELSE RWGDofEdges(el, S0, inp.ibd)
ReqAssoc(d) ==
    IF inp.kind = "DP0" THEN {<<d, 1>>}
    ELSE IF inp.kind = "DP1" THEN {d}
    ELSE IF inp.kind = "P1" THEN P1Assoc(el, S0, inp.ibd, inp.trunc, d)
    ELSE RWGAssoc(el, S0, inp.ibd, inp.trunc, d)
ReqSupport ==
    IF inp.kind \in {"DP0", "DP1"} THEN S0
    ELSE IF inp.kind = "P1" THEN P1Support(el, S0, inp.ibd, inp.trunc)
    ELSE RWGSupport(el, S0, inp.ibd, inp.trunc)


Init ==
    /\ inp \in {i \in Inputs : <<i.ibd, i.trunc>> \in OptPairs(i.kind)}
    /\ el = SubEl(inp.base, inp.sub, Rot)
    /\ xyz = SubXyz(inp.base, inp.sub)
    /\ dom = SubDom(inp.sub)
    /\ S0 = Selected(SubDom(inp.sub), inp.sel)
    /\ S0 # {} /\ ReqDofs # {}      \* zero-DOF selections are outside the universe (DESIGN 8-15)
    /\ pc = "start"
    /\ sup = S0
    /\ edgeDof = <<>> /\ cnt = 0 /\ pos = 1 /\ hasDof = FALSE
    /\ l2g = <<>> /\ mult = <<>> /\ col = <<>>

\* ---------------- element-wise spaces (scalar_spaces.py:30-40, 141-150)
RankIn(S, e) == Cardinality({x \in S : x <= e})
StartDP ==
    /\ pc = "start" /\ inp.kind \in {"DP0", "DP1"}
    /\ l2g' = [e \in 1..N |-> IF e \in S0
                              THEN (IF inp.kind = "DP0" THEN <<RankIn(S0, e)>>
                                    ELSE <<3 * RankIn(S0, e) - 2, 3 * RankIn(S0, e) - 1, 3 * RankIn(S0, e)>>)
                              ELSE (IF inp.kind = "DP0" THEN <<1>> ELSE <<1, 1, 1>>)]
    /\ mult' = [e \in 1..N |-> IF e \in S0 THEN (IF inp.kind = "DP0" THEN <<1>> ELSE <<1, 1, 1>>)
                               ELSE (IF inp.kind = "DP0" THEN <<0>> ELSE <<0, 0, 0>>)]
    /\ pc' = "colour" /\ pos' = 1
    /\ col' = [e \in S0 |-> 0]
    /\ UNCHANGED <<inp, el, xyz, dom, S0, sup, edgeDof, cnt, hasDof>>

\* ---------------- _compute_p1_dof_map (scalar_spaces.py:339-425); `support` is not mutated there
P1Raw ==
    LET own(e, i) == LET v == el[e][i]
                         nonSup == VertexNbrs(el, v) \ S0
                     IN e \in S0 /\ (inp.ibd \/ (nonSup = {} /\ v \notin BoundaryVerts(el)))
        ext(e, i) == LET v == el[e][i]
                     IN e \notin S0 /\ inp.ibd /\ ~inp.trunc /\ (\E s \in S0 : v \in VOf(el, s))
    IN [e \in 1..N |-> [i \in 1..3 |-> IF own(e, i) \/ ext(e, i) THEN el[e][i] ELSE 0]]

StartP1 ==
    /\ pc = "start" /\ inp.kind = "P1"
    /\ LET raw == P1Raw
           used == {raw[e][i] : e \in 1..N, i \in 1..3} \ {0}
           dofnum(v) == Cardinality({u \in used : u <= v})
           fin == {e \in 1..N : \E i \in 1..3 : raw[e][i] # 0}
           maxd(e) == Max({dofnum(raw[e][i]) : i \in {j \in 1..3 : raw[e][j] # 0}})
       IN /\ sup' = fin
          /\ l2g' = [e \in 1..N |-> [i \in 1..3 |->
                        IF raw[e][i] # 0 THEN dofnum(raw[e][i]) ELSE IF e \in fin THEN maxd(e) ELSE 1]]
          /\ mult' = [e \in 1..N |-> [i \in 1..3 |-> IF raw[e][i] # 0 THEN 1 ELSE 0]]
          /\ col' = [e \in fin |-> 0]
    /\ pc' = "colour" /\ pos' = 1
    /\ UNCHANGED <<inp, el, xyz, dom, S0, edgeDof, cnt, hasDof>>

\* ---------------- _compute_rwg0_space_data, first loop (maxwell_spaces.py:560-585)
\* pos enumerates (element of the snapshot, local index): slot = 3*(idx-1)+k ; one extra step per element
Snap == SortedSeq(S0)
StartRWG ==
    /\ pc = "start" /\ inp.kind = "RWG"
    /\ edgeDof' = [ed \in Edges(el) |-> 0]     \* 0 plays the role of -1
    /\ pc' = "rwg1" /\ pos' = 1 /\ hasDof' = FALSE
    /\ UNCHANGED <<inp, el, xyz, dom, S0, sup, cnt, l2g, mult, col>>

RWGEdgeStep ==
    /\ pc = "rwg1" /\ pos <= 4 * Len(Snap) /\ pos % 4 # 0
    /\ LET e == Snap[((pos - 1) \div 4) + 1]
           k == pos % 4
           ed == EdgeOf(el, e, k)
           supn == EdgeNbrs(el, ed) \cap sup
       IN IF edgeDof[ed] # 0
          THEN /\ hasDof' = TRUE /\ UNCHANGED <<edgeDof, cnt, sup>>
          ELSE IF Cardinality(supn) = 2
               THEN /\ edgeDof' = [edgeDof EXCEPT ![ed] = cnt + 1] /\ cnt' = cnt + 1
                    /\ hasDof' = TRUE /\ UNCHANGED sup
               ELSE IF Cardinality(supn) = 1 /\ inp.ibd
                    THEN /\ edgeDof' = [edgeDof EXCEPT ![ed] = cnt + 1] /\ cnt' = cnt + 1
                         /\ hasDof' = TRUE
                         /\ sup' = IF ~inp.trunc THEN sup \cup EdgeNbrs(el, ed) ELSE sup
                    ELSE UNCHANGED <<edgeDof, cnt, hasDof, sup>>
    /\ pos' = pos + 1
    /\ UNCHANGED <<inp, el, xyz, dom, S0, pc, l2g, mult, col>>

RWGElemEnd ==   \* "if not has_dof: support[element] = False"
    /\ pc = "rwg1" /\ pos <= 4 * Len(Snap) /\ pos % 4 = 0
    /\ LET e == Snap[pos \div 4]
       IN sup' = IF hasDof THEN sup ELSE sup \ {e}
    /\ hasDof' = FALSE /\ pos' = pos + 1
    /\ UNCHANGED <<inp, el, xyz, dom, S0, pc, edgeDof, cnt, l2g, mult, col>>

\* second loop (maxwell_spaces.py:587-618)
RWGFinish ==
    /\ pc = "rwg1" /\ pos = 4 * Len(Snap) + 1
    /\ LET m(e, k) == LET ed == EdgeOf(el, e, k)
                          supn == EdgeNbrs(el, ed) \cap sup
                      IN IF e \notin sup \/ edgeDof[ed] = 0 THEN 0
                         ELSE IF Cardinality(supn) = 1 THEN 1
                         ELSE IF e = Min(supn) THEN 1 ELSE -1
           firstNz(e) == IF \E k \in 1..3 : m(e, k) # 0 THEN Min({k \in 1..3 : m(e, k) # 0}) ELSE 1
           d(e, k) == IF e \notin sup THEN 1
                      ELSE IF m(e, k) # 0 THEN edgeDof[EdgeOf(el, e, k)]
                      ELSE LET f == firstNz(e) IN IF edgeDof[EdgeOf(el, e, f)] # 0 THEN edgeDof[EdgeOf(el, e, f)] ELSE 0
       IN /\ l2g' = [e \in 1..N |-> [k \in 1..3 |-> d(e, k)]]
          /\ mult' = [e \in 1..N |-> [k \in 1..3 |-> m(e, k)]]
    /\ col' = [e \in sup |-> 0]
    /\ pc' = "colour" /\ pos' = 1
    /\ UNCHANGED <<inp, el, xyz, dom, S0, sup, edgeDof, cnt, hasDof>>

\* ---------------- space._compute_color_map (space.py:704-718), one support element per step
G2L(d) == {s \in (1..N) \X (1..Len(l2g[1])) : l2g[s[1]][s[2]] = d /\ mult[s[1]][s[2]] # 0}
SupSeq == SortedSeq(sup)
ColourStep ==
    /\ pc = "colour" /\ pos <= Len(SupSeq)
    /\ LET e == SupSeq[pos]
           nb == (UNION {{s[1] : s \in G2L(l2g[e][i])} : i \in 1..Len(l2g[e])}) \ {e}
           used == {col[f] : f \in nb \cap sup}        \* colour 0 = not yet coloured (-1 in the code)
           c == Min({x \in 1..(Cardinality(sup) + 1) : x \notin used})
       IN col' = [col EXCEPT ![e] = c]
    /\ pos' = pos + 1
    /\ UNCHANGED <<inp, el, xyz, dom, S0, pc, sup, edgeDof, cnt, hasDof, l2g, mult>>

ColourDone ==
    /\ pc = "colour" /\ pos = Len(SupSeq) + 1
    /\ pc' = "done"
    /\ UNCHANGED <<inp, el, xyz, dom, S0, pos, sup, edgeDof, cnt, hasDof, l2g, mult, col>>

Next == StartDP \/ StartP1 \/ StartRWG \/ RWGEdgeStep \/ RWGElemEnd \/ RWGFinish \/ ColourStep \/ ColourDone
Spec == Init /\ [][Next]_vars

---------------------------------------------------------------------------
HaveMaps == pc \in {"colour", "done"}
NDofs == IF \E e \in sup : TRUE THEN Max(UNION {RealSlots(l2g, mult, e) : e \in sup} \cup {0}) ELSE 0
AlgoG2L(d) == {s \in sup \X (1..Len(l2g[1])) : l2g[s[1]][s[2]] = d /\ mult[s[1]][s[2]] # 0}

\* the algorithm's DOFs are in bijection with the required entities, slot sets equal
AlgoMeetsReq ==
    HaveMaps =>
      /\ sup = ReqSupport
      /\ NDofs = Cardinality(ReqDofs)
      /\ {AlgoG2L(d) : d \in 1..NDofs} = {ReqAssoc(x) : x \in ReqDofs}
      /\ \A d \in 1..NDofs : AlgoG2L(d) # {}
      /\ \A e \in (1..N) \ sup : \A i \in 1..Len(mult[e]) : mult[e][i] = 0
RWGSigns ==
    (HaveMaps /\ inp.kind = "RWG") =>
      \A d \in 1..NDofs :
         LET sl == AlgoG2L(d)
         IN IF Cardinality(sl) = 1 THEN \A s \in sl : mult[s[1]][s[2]] = 1
            ELSE /\ Cardinality(sl) = 2
                 /\ {mult[s[1]][s[2]] : s \in sl} = {1, -1}
AliasOwn == HaveMaps => ArtificialAliasOwn(l2g, mult, sup)
\* the partial colouring is valid after every step (0 = uncoloured)
ColouringValid ==
    HaveMaps =>
      \A e \in sup, f \in sup :
         (e # f /\ col[e] # 0 /\ col[f] # 0 /\ Slots(l2g, e) \cap Slots(l2g, f) # {}) => col[e] # col[f]
ColouringComplete == pc = "done" => (\A e \in sup : col[e] # 0) /\ ValidColouring(l2g, sup, col)

InputSane == NonDegenerate(el, xyz) /\ (inp.kind = "RWG" => Manifold)

---------------------------------------------------------------------------
Seq2(S) == SetToSeq(S)
EntityJson(x) ==
    IF inp.kind = "DP0" THEN <<x>>
    ELSE IF inp.kind = "DP1" THEN <<x[1], x[2]>>
    ELSE IF inp.kind = "P1" THEN <<x>>
    ELSE SortedSeq(x)
Obligation ==
    [ kind |-> inp.kind, base |-> inp.base, sub |-> SortedSeq(inp.sub), rot |-> Rot,
      mode |-> inp.sel.mode, segs |-> SortedSeq(inp.sel.segs), supp |-> SortedSeq(inp.sel.supp),
      ibd |-> inp.ibd, trunc |-> inp.trunc,
      xyz |-> xyz, el |-> el, dom |-> dom,
      req |-> [ ndofs |-> Cardinality(ReqDofs),
                support |-> SortedSeq(ReqSupport),
                dofs |-> Seq2({<<EntityJson(x), Seq2(ReqAssoc(x))>> : x \in ReqDofs}),
                closed |-> IsClosed(el), manifold |-> Manifold ],
      algo |-> [ l2g |-> l2g, mult |-> mult, col |-> [e \in 1..N |-> IF e \in sup THEN col[e] ELSE 0] ] ]
Emit == (pc = "done" /\ EmitJson) => PrintT("OBL " \o ToJson(Obligation))

=============================================================================

SPECIFICATION Spec
CONSTANTS
  MaxDepth = 2
  EmitJson = TRUE
INVARIANT Closed
INVARIANT Emit
CHECK_DEADLOCK FALSE

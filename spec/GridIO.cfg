SPECIFICATION Spec
CONSTANTS
  NElem = 4
  DomVals = {0, 3, 7}
  Formats = {"msh", "vtu", "ply"}
  ZeroFallsBack = FALSE
  EmitJson = TRUE
INVARIANT RoundTrip
INVARIANT OtherFormats
INVARIANT Emit
CHECK_DEADLOCK FALSE

SPECIFICATION Spec
CONSTANTS
  Wavenumbers <- WavenumbersU5
  PotentialPassesImag = FALSE
  EmitJson = FALSE
INVARIANT RoutePreservesKernel
INVARIANT RouteForwardsArguments
INVARIANT Emit
CHECK_DEADLOCK FALSE

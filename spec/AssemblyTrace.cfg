SPECIFICATION Spec
INVARIANT NoDoubleCount
INVARIANT PlanConstants
INVARIANT Report
CHECK_DEADLOCK FALSE

SPECIFICATION Spec
CONSTANTS
  Wavenumbers <- WavenumbersU5
  PotentialPassesImag = TRUE
  EmitJson = TRUE
INVARIANT RoutePreservesKernel
INVARIANT Emit
CHECK_DEADLOCK FALSE

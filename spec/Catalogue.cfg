SPECIFICATION Spec
CONSTANTS
  Wavenumbers <- WavenumbersU5
  PotentialPassesImag = TRUE
  EmitJson = TRUE
INVARIANT RoutePreservesKernel
INVARIANT RouteForwardsArguments
INVARIANT Emit
CHECK_DEADLOCK FALSE

SPECIFICATION Spec
CONSTANTS
  Dims = {2, 3, 5}
  Solvers_ = {"lu", "lu_factors", "gmres", "cg"}
  DualDims = {2}
  SliceBy = "global"
  SwapBlockedSettings = FALSE
  DtypeRule = "all"
  EmitJson = TRUE
INVARIANT RhsLayout
INVARIANT SolutionLayout
INVARIANT RhsKeepsComplex
INVARIANT SettingsHandedOn
INVARIANT ReturnShape
INVARIANT Emit
CHECK_DEADLOCK FALSE

SPECIFICATION Spec
CONSTANTS
  Dims = {2, 3, 5}
  Solvers_ = {"lu", "lu_factors", "gmres", "cg"}
  EmitJson = TRUE
INVARIANT RhsLayout
INVARIANT SolutionLayout
INVARIANT ReturnShape
INVARIANT Emit
CHECK_DEADLOCK FALSE

------------------------------ MODULE OpAlgebra ------------------------------
(***************************************************************************)
(* C14.  The operator / grid-function / potential algebra as a typed term  *)
(* language.  A behaviour grows one expression tree, one operation per     *)
(* step, from the atoms of a fixed pool (assembled boundary operators,     *)
(* grid functions, potential operators and scalars of several Python       *)
(* types); the reachable states are ALL expression trees of bounded depth  *)
(* whose binary nodes have an atom on one side, well-typed or not.         *)
(*                                                                         *)
(* For every tree the specification gives                                  *)
(*   TypeOf(t)   "ill" or the type (kind and spaces) - the verdict         *)
(*               accept / reject the library has to reproduce, and         *)
(*   Denote(t)   a linear-algebra expression over the atoms' weak forms    *)
(*               W[a], inverse mass matrices Minv[range,dual], coefficient *)
(*               vectors c[f] and potential atoms P[p]; in particular      *)
(*               a product is  W1 . Minv(range2, dual2) . W2               *)
(*               and applying an operator to a grid function gives the     *)
(*               function whose projections are W c.                       *)
(***************************************************************************)
EXTENDS Integers, Sequences, FiniteSets, TLC, Json

CONSTANTS MaxDepth, EmitJson

\* ---- the pool --------------------------------------------------------------
\* spaces: 1 = P1, 2 = DP0, 3 = DP1 on the same grid (8, 12 and 36 dofs on the 12-element box)
BoAtoms == { [id |-> "V11", dom |-> 1, ran |-> 1, dua |-> 1], [id |-> "V22", dom |-> 2, ran |-> 2, dua |-> 2],
             [id |-> "K12", dom |-> 1, ran |-> 2, dua |-> 2], [id |-> "T21", dom |-> 2, ran |-> 1, dua |-> 1],
             [id |-> "I11", dom |-> 1, ran |-> 1, dua |-> 1], [id |-> "H11", dom |-> 1, ran |-> 1, dua |-> 1],
             [id |-> "V33", dom |-> 3, ran |-> 3, dua |-> 3],
             [id |-> "X12", dom |-> 1, ran |-> 2, dua |-> 1],    \* range and dual space differ (rectangular mass matrix)
             [id |-> "S11", dom |-> 1, ran |-> 1, dua |-> 1] }   \* a real operator assembled with precision="single"
\* d2 and e2 are given by their projections (dual representation) onto the dual spaces 2 and 1: what operator application returns
GfAtoms == { [id |-> "f1", sp |-> 1], [id |-> "g1", sp |-> 1], [id |-> "f2", sp |-> 2], [id |-> "d2", sp |-> 2], [id |-> "e2", sp |-> 2] }
PotAtoms == { [id |-> "p1", sp |-> 1], [id |-> "q1", sp |-> 1], [id |-> "p2", sp |-> 2] }
Scalars == {"two", "mhalf", "cplx", "np3", "npc"}
\* blocked operators (block rows/columns typed by sequences of spaces) and lists of grid functions
BlkAtoms == { [id |-> "B", doms |-> <<1, 2>>, rans |-> <<1, 2>>, duas |-> <<1, 2>>],      \* [[V11, T21], [K12, V22]]
              [id |-> "C", doms |-> <<1, 2>>, rans |-> <<1, 2>>, duas |-> <<1, 2>>],      \* [[I11, -], [-, V22]]
              [id |-> "R", doms |-> <<2, 1>>, rans |-> <<1, 2>>, duas |-> <<1, 2>>],      \* [[T21, V11], [V22, K12]]
              [id |-> "D", doms |-> <<3>>, rans |-> <<3>>, duas |-> <<3>>],               \* [[V33]]
              [id |-> "E", doms |-> <<1>>, rans |-> <<2>>, duas |-> <<1>>],               \* [[X12]]
              [id |-> "F", doms |-> <<1, 2>>, rans |-> <<2, 2>>, duas |-> <<1, 2>>] }     \* [[X12, -], [-, V22]]: first block row has range dofs # dual dofs, so slicing by the wrong count shifts row 2
GflAtoms == { [id |-> "fl12", sps |-> <<1, 2>>], [id |-> "fl21", sps |-> <<2, 1>>], [id |-> "fl3", sps |-> <<3>>], [id |-> "fl1", sps |-> <<1>>] }

Atom(kind, a) == [k |-> "atom", kind |-> kind, id |-> a.id]
Atoms == {Atom("bo", a) : a \in BoAtoms} \cup {Atom("gf", a) : a \in GfAtoms} \cup {Atom("pot", a) : a \in PotAtoms}
         \cup {Atom("blk", a) : a \in BlkAtoms} \cup {Atom("gfl", a) : a \in GflAtoms}
BlkOf(id) == CHOOSE a \in BlkAtoms : a.id = id
GflOf(id) == CHOOSE a \in GflAtoms : a.id = id

BoOf(id) == CHOOSE a \in BoAtoms : a.id = id
GfOf(id) == CHOOSE a \in GfAtoms : a.id = id
PotOf(id) == CHOOSE a \in PotAtoms : a.id = id

\* ---- typing ----------------------------------------------------------------
Ill == [kind |-> "ill"]
RECURSIVE TypeOf(_)
TypeOf(t) ==
    IF t.k = "atom" THEN
        (IF t.kind = "bo" THEN [kind |-> "bo", dom |-> BoOf(t.id).dom, ran |-> BoOf(t.id).ran, dua |-> BoOf(t.id).dua]
         ELSE IF t.kind = "gf" THEN [kind |-> "gf", sp |-> GfOf(t.id).sp]
         ELSE IF t.kind = "blk" THEN [kind |-> "blk", doms |-> BlkOf(t.id).doms, rans |-> BlkOf(t.id).rans, duas |-> BlkOf(t.id).duas]
         ELSE IF t.kind = "gfl" THEN [kind |-> "gfl", sps |-> GflOf(t.id).sps]
         ELSE [kind |-> "pot", sp |-> PotOf(t.id).sp])
    ELSE IF t.k \in {"neg", "scale", "rscale"} THEN
        (LET x == TypeOf(t.x) IN IF x.kind \in {"bo", "gf", "pot", "blk"} THEN x ELSE Ill)
    ELSE IF t.k = "div" THEN
        (LET x == TypeOf(t.x) IN IF x.kind = "gf" THEN x ELSE Ill)
    ELSE IF t.k \in {"sum", "diff"} THEN
        (LET l == TypeOf(t.l) r == TypeOf(t.r) IN IF l.kind \in {"bo", "gf", "pot", "blk"} /\ l = r THEN l ELSE Ill)
    ELSE IF t.k = "prod" THEN
        (LET l == TypeOf(t.l) r == TypeOf(t.r)
         IN IF l.kind = "bo" /\ r.kind = "bo" /\ r.ran = l.dom THEN [kind |-> "bo", dom |-> r.dom, ran |-> l.ran, dua |-> l.dua]
            ELSE IF l.kind = "bo" /\ r.kind = "gf" /\ r.sp = l.dom THEN [kind |-> "gf", sp |-> l.ran]     \* operator applied to a function
            ELSE IF l.kind = "pot" /\ r.kind = "gf" /\ r.sp = l.sp THEN [kind |-> "val"]                  \* potential evaluated
            ELSE IF l.kind = "blk" /\ r.kind = "blk" /\ r.rans = l.doms
                 THEN [kind |-> "blk", doms |-> r.doms, rans |-> l.rans, duas |-> l.duas]
            ELSE IF l.kind = "blk" /\ r.kind = "gfl" /\ r.sps = l.doms THEN [kind |-> "gfl", sps |-> l.rans]  \* list of images
            ELSE Ill)
    ELSE Ill

WellTyped(t) == TypeOf(t).kind # "ill"

\* ---- denotation ------------------------------------------------------------
RECURSIVE Denote(_)
Denote(t) ==
    IF t.k = "atom" THEN <<IF t.kind = "bo" THEN "W" ELSE IF t.kind = "gf" THEN "c" ELSE IF t.kind = "blk" THEN "BW"
                             ELSE IF t.kind = "gfl" THEN "cl" ELSE "P", t.id>>
    ELSE IF t.k = "neg" THEN <<"scal", "m1", Denote(t.x)>>
    ELSE IF t.k \in {"scale", "rscale"} THEN <<"scal", t.a, Denote(t.x)>>
    ELSE IF t.k = "div" THEN <<"scalinv", t.a, Denote(t.x)>>
    ELSE IF t.k = "sum" THEN <<"add", Denote(t.l), Denote(t.r)>>
    ELSE IF t.k = "diff" THEN <<"add", Denote(t.l), <<"scal", "m1", Denote(t.r)>>>>
    ELSE IF t.k = "prod" THEN
        (LET l == TypeOf(t.l) r == TypeOf(t.r)
         IN IF r.kind = "blk" THEN <<"mul", Denote(t.l), <<"mul", <<"bminv", r.rans, r.duas>>, Denote(t.r)>>>>
            ELSE IF l.kind = "blk" THEN <<"mul", <<"bminv", l.rans, l.duas>>, <<"mul", Denote(t.l), Denote(t.r)>>>>
            ELSE IF r.kind = "bo" THEN <<"mul", Denote(t.l), <<"mul", <<"minv", r.ran, r.dua>>, Denote(t.r)>>>>
            ELSE IF l.kind = "bo" THEN <<"mul", <<"minv", l.ran, l.dua>>, <<"mul", Denote(t.l), Denote(t.r)>>>>  \* coefficients of the image
            ELSE <<"ev", Denote(t.l), Denote(t.r)>>)
    ELSE <<"none">>

\* ---- the state machine -----------------------------------------------------
VARIABLES t, d
vars == <<t, d>>

Unary(x) == {[k |-> "neg", x |-> x]} \cup {[k |-> "scale", a |-> a, x |-> x] : a \in Scalars}
             \cup {[k |-> "rscale", a |-> a, x |-> x] : a \in Scalars} \cup {[k |-> "div", a |-> a, x |-> x] : a \in {"two", "cplx"}}
Binary(x, y) == {[k |-> op, l |-> x, r |-> y] : op \in {"sum", "diff", "prod"}}
\* a list of grid functions is a plain Python list, not a library object: it only occurs as the right operand of a product
IsList(x) == x.k = "atom" /\ x.kind = "gfl"
Ext(x) == IF IsList(x) THEN {[k |-> "prod", l |-> a, r |-> x] : a \in Atoms}
          ELSE IF TypeOf(x).kind = "gfl" THEN {}      \* the list of images is a Python list as well
          ELSE Unary(x) \cup UNION {(IF IsList(a) THEN {[k |-> "prod", l |-> x, r |-> a]} ELSE Binary(x, a) \cup Binary(a, x)) : a \in Atoms}

Init == t \in Atoms /\ d = 0
\* an ill-typed tree is a leaf of the exploration: the library must reject it, nothing is built on top of it
Next == d < MaxDepth /\ WellTyped(t) /\ TypeOf(t).kind # "val" /\ t' \in Ext(t) /\ d' = d + 1
Spec == Init /\ [][Next]_vars

\* ---- invariants of the model itself ------------------------------------------
\* typing is closed under the documented operations; a product of boundary operators denotes W.Minv.W
Closed ==
    WellTyped(t) =>
        /\ (t.k \in {"neg", "scale", "rscale"} => TypeOf(t) = TypeOf(t.x))
        /\ (t.k \in {"sum", "diff"} => TypeOf(t) = TypeOf(t.l) /\ TypeOf(t) = TypeOf(t.r))
        /\ ((t.k = "prod" /\ TypeOf(t).kind = "bo") =>
               /\ Denote(t)[1] = "mul" /\ Denote(t)[3][2][1] = "minv"
               /\ TypeOf(t).dom = TypeOf(t.r).dom /\ TypeOf(t).ran = TypeOf(t.l).ran)
IllIsLeaf == [][WellTyped(t)]_vars

Obligation ==
    [ term |-> t, depth |-> d, verdict |-> IF WellTyped(t) THEN "accept" ELSE "reject", type |-> TypeOf(t),
      den |-> IF WellTyped(t) THEN Denote(t) ELSE <<"none">> ]
Emit == EmitJson => PrintT("OBL " \o ToJson(Obligation))
=============================================================================

---------------------------- MODULE AssemblyTrace ----------------------------
(***************************************************************************)
(* Trace validation (binding B) of assembly plans recorded from the real   *)
(* dense / singular assemblers (harness/record_launch.py) against          *)
(* Assembly.tla.  One JSON file holds many traces; each initial state      *)
(* picks one.  Every event must be an enabled action of the plan model;    *)
(* verdicts are total: the first event that is not enabled ends the        *)
(* behaviour with the name of the failing clause, and a trace that is      *)
(* consumed completely is judged by the completeness clauses               *)
(* (EachPairOnce).                                                         *)
(*                                                                         *)
(* Events (all ids 1-based):                                               *)
(*  [ev="regular",  test=<<batch>>, trial=<<trial elements>>, ...]         *)
(*      one launch of the parallel kernel = one colour of the test space   *)
(*  [ev="singular", test=<<t>>, trial=<<s>>, cls, tmap, smap, npts, wcls]  *)
(*      one pair of the singular plan with the remaps recovered from the   *)
(*      rule-table slices the offsets select                               *)
(***************************************************************************)
EXTENDS Assembly, Json, IOUtils, SequencesExt, FiniteSetsExt

Traces == JsonDeserialize(IOEnv.TRACE_FILE).traces

VARIABLES tid, l, launched, regPairs, singPairs, verdict
vars == <<tid, l, launched, regPairs, singPairs, verdict>>

T == Traces[tid]
El == T.el
SupT == {T.supT[i] : i \in 1..Len(T.supT)}
SupS == {T.supS[i] : i \in 1..Len(T.supS)}
Rows(e) == {T.rows[e][i] : i \in 1..Len(T.rows[e])}


Init ==
    /\ tid \in 1..Len(Traces)
    /\ l = 1 /\ launched = {} /\ regPairs = {} /\ singPairs = {}
    /\ verdict = "running"

\* --- regular launch: which clause fails first ("" = enabled)
RegularClause(ev) ==
    LET batch == ToSet(ev.test)
    IN IF Len(ev.test) # Cardinality(batch) THEN "BatchHasDuplicates"
       ELSE IF ~(batch \subseteq SupT) THEN "BatchOutsideTestSupport"
       ELSE IF batch \cap launched # {} THEN "TestElementLaunchedTwice"
       ELSE IF \E a \in batch, b \in batch : a # b /\ Rows(a) \cap Rows(b) # {} THEN "WritesDisjointPerLaunch"
       ELSE IF ToSet(ev.trial) # SupS \/ Len(ev.trial) # Cardinality(SupS) THEN "TrialListIsNotTrialSupport"
       ELSE ""

\* the kernel contract: a launch integrates every (t, s) except adjacent pairs on identical grids
RegularContributions(ev) ==
    {<<t, s>> \in ToSet(ev.test) \X ToSet(ev.trial) : Class(El, T.ident, t, s) = "reg"}

SingularClause(ev) ==
    LET t == ev.test[1] s == ev.trial[1]
    IN IF ~T.ident THEN "SingularPairOnDifferentGrids"
       ELSE IF t \notin SupT \/ s \notin SupS THEN "SingularPairOutsideSupport"
       ELSE IF <<t, s>> \in singPairs THEN "PairIntegratedTwice"
       ELSE IF Class(El, TRUE, t, s) # ev.cls THEN "WrongRuleClass"
       ELSE IF ev.wcls # ev.cls THEN "WeightsOfAnotherClass"
       ELSE IF ev.npts # NPoints(T.order, ev.cls) THEN "WrongNumberOfPoints"
       ELSE IF ~RemapOnSharedEntity(El, ev.cls, t, s, ev.tmap, ev.smap) THEN "SingularityOnSharedEntity"
       ELSE ""

Clause(ev) == IF ev.ev = "regular" THEN RegularClause(ev)
              ELSE IF ev.ev = "singular" THEN SingularClause(ev) ELSE "UnknownEvent"

Step ==
    /\ verdict = "running" /\ l <= Len(T.events)
    /\ LET ev == T.events[l]
           c == Clause(ev)
       IN IF c # ""
          THEN /\ verdict' = c /\ UNCHANGED <<l, launched, regPairs, singPairs>>
          ELSE /\ l' = l + 1 /\ verdict' = verdict
               /\ IF ev.ev = "regular"
                  THEN /\ launched' = launched \cup ToSet(ev.test)
                       /\ regPairs' = regPairs \cup RegularContributions(ev)
                       /\ UNCHANGED singPairs
                  ELSE /\ singPairs' = singPairs \cup {<<ev.test[1], ev.trial[1]>>}
                       /\ UNCHANGED <<launched, regPairs>>
    /\ UNCHANGED tid

\* completeness clauses at the end of the trace
Required(cls) == {p \in SupT \X SupS : IF cls = "reg" THEN Class(El, T.ident, p[1], p[2]) = "reg"
                                                   ELSE Class(El, T.ident, p[1], p[2]) \in {"coin", "edge", "vert"}}
FinalClause ==
    IF launched # SupT THEN "EveryTestElementLaunchedOnce"
    ELSE IF regPairs # Required("reg") THEN "EachPairOnce_regular"
    ELSE IF singPairs # Required("sing") THEN "EachPairOnce_singular"
    ELSE IF regPairs \cap singPairs # {} THEN "PairIntegratedByBothParts"
    ELSE "accept"

Finish ==
    /\ verdict = "running" /\ l = Len(T.events) + 1
    /\ verdict' = FinalClause
    /\ UNCHANGED <<tid, l, launched, regPairs, singPairs>>

Next == Step \/ Finish
Spec == Init /\ [][Next]_vars

\* safety of the plan model along the way (checked in every state)
NoDoubleCount == regPairs \cap singPairs = {}
PlanConstants == OffsetsAligned /\ \A o \in 1..6 : SlicesInBounds(o)

Report == verdict # "running" =>
    PrintT("TRC " \o ToJson([id |-> T.id, verdict |-> verdict, at |-> l, events |-> Len(T.events)]))

=============================================================================

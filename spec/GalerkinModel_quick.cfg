SPECIFICATION Spec
CONSTANTS
  BoxDims <- BoxesQuick
  Extra <- ExtraNone
  Patterns = {0, 1}
  MeshBases = {"OCT", "TET"}
  MaxCells = 4
  EmitJson = TRUE
INVARIANT Premises
INVARIANT OracleSane
INVARIANT GaussTheorem
INVARIANT Emit
CHECK_DEADLOCK FALSE

------------------------------ MODULE BaryModel ------------------------------
(***************************************************************************)
(* C10.  Requirement side for barycentric and dual-grid spaces, derived    *)
(* from the geometry of the barycentric refinement (Mesh.BaryChildren) and *)
(* never from the library's coefficient tables.  Points are given with     *)
(* coordinates scaled by 6, so that vertices, edge midpoints and           *)
(* barycentres are integer points ("nodes").                               *)
(*                                                                         *)
(*   P1Nodal(e,i,x)   value of lambda_i of element e at node x of e:       *)
(*                    1 / 1/2 / 1/3 / 0  (as sixths: 6, 3, 2, 0)           *)
(*   Dual1Nodal(e,x)  documented nodal values of the DUAL1 function of e:  *)
(*                    1 at its barycentre, 1/2 at its edge midpoints,      *)
(*                    1/n at its n-valent vertices, 0 at every other node  *)
(*   Dual0Cell(v)     the DUAL0 function of vertex v is the indicator of   *)
(*                    the barycentric children that have v as a corner     *)
(*                                                                         *)
(* One state per coarse element; TLC checks partition of unity of the      *)
(* three tables at every node / child.                                     *)
(***************************************************************************)
EXTENDS Mesh, Universe, SequencesExt, FiniteSetsExt, Json

CONSTANTS Bases, MaxDrop, Rot, EmitJson
VARIABLES inp, el, xyz, e
vars == <<inp, el, xyz, e>>

SortedSeq(S) == SetToSortSeq(S, <)
RotTri(t, k) == IF k = 0 THEN t ELSE IF k = 1 THEN <<t[2], t[3], t[1]>> ELSE <<t[3], t[1], t[2]>>
SubEl(base, sub, r) ==
    LET s == SortedSeq(sub)
        raw == [i \in 1..Len(s) |-> RotTri(BaseEl(base)[s[i]], (s[i] * r) % 3)]
        used == UNION {{raw[i][1], raw[i][2], raw[i][3]} : i \in 1..Len(s)}
        ren(v) == Cardinality({u \in used : u <= v})
    IN [i \in 1..Len(s) |-> <<ren(raw[i][1]), ren(raw[i][2]), ren(raw[i][3])>>]
SubXyz(base, sub) ==
    LET used == UNION {{BaseEl(base)[i][1], BaseEl(base)[i][2], BaseEl(base)[i][3]} : i \in sub}
        us == SortedSeq(used)
    IN [i \in 1..Len(us) |-> BaseXyz(base)[us[i]]]
MeshSubs(base) == LET n == Len(BaseEl(base)) IN {s \in SUBSET (1..n) : Cardinality(s) >= n - MaxDrop /\ s # {}}

N == Len(el)
\* nodes (x6)
VNode(v) == VScale(6, xyz[v])
MNode(ed) == LET s == SortedSeq(ed) IN VScale(3, VAdd(xyz[s[1]], xyz[s[2]]))
BNode(f) == VScale(2, Centroid3(el, xyz, f))
NodesOf(f) == {VNode(v) : v \in VOf(el, f)} \cup {MNode(EdgeOf(el, f, k)) : k \in 1..3} \cup {BNode(f)}

\* lambda_i of element f at a node of f, in sixths
P1Nodal(f, i, x) ==
    IF x = VNode(el[f][i]) THEN 6
    ELSE IF \E k \in 1..3 : x = MNode(EdgeOf(el, f, k)) /\ el[f][i] \in EdgeOf(el, f, k) THEN 3
    ELSE IF x = BNode(f) THEN 2
    ELSE 0

\* DUAL1 function of element f at node x : <<num, den>>
Dual1Nodal(f, x) ==
    IF x = BNode(f) THEN <<1, 1>>
    ELSE IF \E k \in 1..3 : x = MNode(EdgeOf(el, f, k)) THEN <<1, 2>>
    ELSE IF \E v \in VOf(el, f) : x = VNode(v)
         THEN <<1, Cardinality(VertexNbrs(el, CHOOSE v \in VOf(el, f) : x = VNode(v)))>>
    ELSE <<0, 1>>

\* children of element f that have vertex v as a corner
Dual0Children(f, v) == {CycNF(t) : t \in {c \in BaryChildren(el, xyz, f) : VNode(v) \in {c[1], c[2], c[3]}}}

Init ==
    /\ inp \in UNION {{[base |-> b, sub |-> s] : s \in MeshSubs(b)} : b \in Bases}
    /\ el = SubEl(inp.base, inp.sub, Rot)
    /\ xyz = SubXyz(inp.base, inp.sub)
    /\ e = 0
Next == e < N /\ e' = e + 1 /\ UNCHANGED <<inp, el, xyz>>
Spec == Init /\ [][Next]_vars

\* partition of unity of the requirement tables
TablesSane ==
    e > 0 =>
      /\ \A x \in NodesOf(e) : P1Nodal(e, 1, x) + P1Nodal(e, 2, x) + P1Nodal(e, 3, x) = 6
      /\ \A v \in VOf(el, e) : Cardinality(Dual0Children(e, v)) = 2
      /\ \A c \in BaryChildren(el, xyz, e) : Cardinality({v \in VOf(el, e) : CycNF(c) \in Dual0Children(e, v)}) = 1
      \* DUAL1 sums to one at the barycentre and at every vertex; at a midpoint it does so iff the edge is interior
      /\ \A v \in VOf(el, e) : Cardinality(VertexNbrs(el, v)) >= 1
      /\ \A k \in 1..3 : Cardinality(EdgeNbrs(el, EdgeOf(el, e, k))) \in {1, 2, 3}

Seq2(S) == SetToSeq(S)
Obligation ==
    IF e = 0
    THEN [ kind |-> "mesh", id |-> ToString(inp), base |-> inp.base, sub |-> SortedSeq(inp.sub), xyz |-> xyz, el |-> el,
           closed |-> IsClosed(el), manifold |-> IsManifoldEdge(el),
           valence |-> [v \in 1..Len(xyz) |-> Cardinality(VertexNbrs(el, v))] ]
    ELSE [ kind |-> "element", id |-> ToString(inp), e |-> e,
           children |-> Seq2({CycNF(c) : c \in BaryChildren(el, xyz, e)}),
           nodes |-> Seq2(NodesOf(e)),
           p1 |-> [i \in 1..3 |-> Seq2({<<x, P1Nodal(e, i, x)>> : x \in NodesOf(e)})],
           dual1 |-> Seq2({<<x, Dual1Nodal(e, x)>> : x \in NodesOf(e)}),
           dual0 |-> [i \in 1..3 |-> Seq2(Dual0Children(e, el[e][i]))] ]
Emit == EmitJson => PrintT("OBL " \o ToJson(Obligation))
=============================================================================

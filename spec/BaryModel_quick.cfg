SPECIFICATION Spec
CONSTANTS
  Bases = {"OCT", "TET", "STRIP8"}
  MaxDrop = 1
  Rot = 1
  EmitJson = TRUE
INVARIANT TablesSane
INVARIANT Emit
CHECK_DEADLOCK FALSE

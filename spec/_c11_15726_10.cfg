SPECIFICATION Spec
CONSTANTS
  Bases = {"OCT", "TET", "STRIP8", "BOW", "FAN3", "DUP", "DISJ"}
  RotPatterns = {2}
  Flips = {1}
  MaxKeep = 12
  MaxDrop = 12
  EmitJson = TRUE
INVARIANT InputSane
INVARIANT EdgesOnce
INVARIANT ElemEdgesConsistent
INVARIANT EdgeAdjExact
INVARIANT VertexAdjExact
INVARIANT ReqSane
INVARIANT Emit
CHECK_DEADLOCK FALSE

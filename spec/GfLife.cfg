SPECIFICATION Spec
CONSTANTS
  NSlots = 3
  MaxDepth = 3
  EmitJson = FALSE
INVARIANT TypeOK
INVARIANT DenotationOnly
PROPERTY Monotone
CHECK_DEADLOCK FALSE

SPECIFICATION Spec
CONSTANTS
  NSlots = 3
  MaxDepth = 9
  EmitJson = TRUE
INVARIANT TypeOK
INVARIANT Emit
CHECK_DEADLOCK FALSE

------------------------------ MODULE L2Model ------------------------------
(***************************************************************************)
(* Obligation generator for C13: for every mesh of the universe (whole     *)
(* base meshes with non-uniform element sizes and their sub-complexes with *)
(* at most MaxDrop elements removed) one state per element emitting the    *)
(* exact element matrices of L2Exact.                                      *)
(***************************************************************************)
EXTENDS L2Exact, Universe, SequencesExt, FiniteSetsExt, Json

CONSTANTS Bases, MaxDrop, Rot, EmitJson
VARIABLES inp, el, xyz, dom, e
vars == <<inp, el, xyz, dom, e>>

SortedSeq(S) == SetToSortSeq(S, <)
RotTri(t, k) == IF k = 0 THEN t ELSE IF k = 1 THEN <<t[2], t[3], t[1]>> ELSE <<t[3], t[1], t[2]>>
DomOf(i) == (i % 3) * 5
SubEl(base, sub, r) ==
    LET s == SortedSeq(sub)
        raw == [i \in 1..Len(s) |-> RotTri(BaseEl(base)[s[i]], (s[i] * r) % 3)]
        used == UNION {{raw[i][1], raw[i][2], raw[i][3]} : i \in 1..Len(s)}
        ren(v) == Cardinality({u \in used : u <= v})
    IN [i \in 1..Len(s) |-> <<ren(raw[i][1]), ren(raw[i][2]), ren(raw[i][3])>>]
SubXyz(base, sub) ==
    LET used == UNION {{BaseEl(base)[i][1], BaseEl(base)[i][2], BaseEl(base)[i][3]} : i \in sub}
        us == SortedSeq(used)
    IN [i \in 1..Len(us) |-> BaseXyz(base)[us[i]]]
MeshSubs(base) == LET n == Len(BaseEl(base)) IN {s \in SUBSET (1..n) : Cardinality(s) >= n - MaxDrop /\ s # {}}

Init ==
    /\ inp \in UNION {{[base |-> b, sub |-> s] : s \in MeshSubs(b)} : b \in Bases}
    /\ el = SubEl(inp.base, inp.sub, Rot)
    /\ xyz = SubXyz(inp.base, inp.sub)
    /\ dom = [i \in 1..Cardinality(inp.sub) |-> DomOf(SortedSeq(inp.sub)[i])]
    /\ e = 0
Next == e < Len(el) /\ e' = e + 1 /\ UNCHANGED <<inp, el, xyz, dom>>
Spec == Init /\ [][Next]_vars

Sane == e > 0 => (L2Sane(el, xyz, e) /\ J2(el, xyz, e) > 0 /\ CoordsSmall(xyz))

M33(f(_, _)) == Block(f)
Obligation ==
    IF e = 0
    THEN [ kind |-> "mesh", id |-> ToString(inp), base |-> inp.base, sub |-> SortedSeq(inp.sub), xyz |-> xyz, el |-> el, dom |-> dom ]
    ELSE LET g(k, m) == RwgGram(el, xyz, e, k, m)
             s(k, m) == RwgSnc(el, xyz, e, k, m)
             l(i, j) == LB(el, xyz, e, i, j)
             p(i, j) == P1Mass(i, j)
             r(k, i) == RwgP1(el, xyz, e, k, i)
         IN [ kind |-> "element", id |-> ToString(inp), e |-> e,
              j2 |-> J2(el, xyz, e),
              len2 |-> [k \in 1..3 |-> EdgeLen2(el, xyz, e, k)],
              p1mass |-> M33(p), lb |-> M33(l), rwg |-> M33(g), rwgsnc |-> M33(s),
              rwgint |-> [k \in 1..3 |-> RwgInt(el, xyz, e, k)],
              rwgp1 |-> M33(r),
              \* data of the sparse maps of C06: surface curls -e_i/J, normals Cross/J, RWG components l_k (p_m - p_opp(k))/J, divergence 2 l_k/J
              eopp |-> [i \in 1..3 |-> EdgeOpp(el, xyz, e, i)],
              cross |-> Cross(el, xyz, e),
              pdiff |-> [k \in 1..3 |-> [mm \in 1..3 |-> VSub(P(el, xyz, e, mm), P(el, xyz, e, Opp(k)))]],
              c3 |-> [i \in 1..3 |-> [j \in 1..3 |-> [k \in 1..3 |-> C3(i, j, k)]]] ]
Emit == EmitJson => PrintT("OBL " \o ToJson(Obligation))
=============================================================================

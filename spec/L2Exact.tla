------------------------------ MODULE L2Exact ------------------------------
(***************************************************************************)
(* C13 (and the mixed mass matrices of C10).  Exact element matrices of    *)
(* the L2 inner products of the local bases on an integer triangle, as     *)
(* integer numerators.  With J = |Cross| and l_k the length of local edge  *)
(* k (bempp numbering: edge 0 = (v0,v1), 1 = (v2,v0), 2 = (v1,v2); the RWG *)
(* function of edge k is  l_k/J (x - p_opp(k)),  opp = 2,1,0):             *)
(*                                                                         *)
(*   int lambda_i lambda_j          = J   * P1Mass(i,j)      / 120         *)
(*   int lambda_i                   = J   * 20               / 120         *)
(*   int 1                          = J   * 60               / 120         *)
(*   int lambda_i lambda_j lambda_k = J   * C3(i,j,k)        / 120         *)
(*   int grad lambda_i.grad lambda_j= LB(i,j)                / (2 J)       *)
(*   int RWG_k . RWG_m              = l_k l_m RwgGram(k,m)   / (120 J)     *)
(*   int RWG_k . (n x RWG_m)        = l_k l_m RwgSnc(k,m)    / (120 J^2)   *)
(*   int RWG_k                      = l_k RwgInt(k)          / 120         *)
(*   int RWG_k . lambda_i a         = l_k RwgP1(k,i).a       / 120         *)
(***************************************************************************)
EXTENDS GalerkinExact

Opp(k) == 4 - k
EdgeLen2(el, xyz, e, k) ==
    LET d == VSub(P(el, xyz, e, LocalEdge[k][1]), P(el, xyz, e, LocalEdge[k][2])) IN VDot(d, d)

P1Mass(i, j) == 5 * (1 + Delta(i, j))

\* moments of the constant function on e, numerators over 120 per unit J
X0(el, xyz, e) == VScale(20, Centroid3(el, xyz, e))
Q0(el, xyz, e) ==
    LET row(k) == LET term(l) == (1 + Delta(k, l)) * VDot(P(el, xyz, e, k), P(el, xyz, e, l)) IN Sum3(term)
    IN 5 * Sum3(row)

RwgGram(el, xyz, e, k, m) ==
    LET pk == P(el, xyz, e, Opp(k)) pm == P(el, xyz, e, Opp(m))
    IN Q0(el, xyz, e) - VDot(X0(el, xyz, e), VAdd(pk, pm)) + 60 * VDot(pk, pm)
RwgInt(el, xyz, e, k) == VSub(X0(el, xyz, e), VScale(60, P(el, xyz, e, Opp(k))))
\* int lambda_i (x - p_k) = MX_i - 20 p_k
RwgP1(el, xyz, e, k, i) == VSub(MX(el, xyz, e, i), VScale(20, P(el, xyz, e, Opp(k))))
RwgSnc(el, xyz, e, k, m) ==
    LET pk == P(el, xyz, e, Opp(k)) pm == P(el, xyz, e, Opp(m))
        x0 == X0(el, xyz, e)
        v == VAdd(VAdd(VScale(-1, VCross(x0, pk)), VScale(-1, VCross(pm, x0))), VScale(60, VCross(pm, pk)))
    IN VDot(Cross(el, xyz, e), v)
LB(el, xyz, e, i, j) == VDot(EdgeOpp(el, xyz, e, i), EdgeOpp(el, xyz, e, j))

\* sanity theorems checked by TLC for every element of the universe
L2Sane(el, xyz, e) ==
    /\ \A k \in 1..3 : RwgGram(el, xyz, e, k, k) > 0
    /\ \A k \in 1..3, m \in 1..3 : RwgGram(el, xyz, e, k, m) = RwgGram(el, xyz, e, m, k)
    /\ \A k \in 1..3, m \in 1..3 : RwgSnc(el, xyz, e, k, m) = -RwgSnc(el, xyz, e, m, k)
    /\ \A i \in 1..3 : LB(el, xyz, e, i, 1) + LB(el, xyz, e, i, 2) + LB(el, xyz, e, i, 3) = 0   \* constants in the kernel
    /\ \A k \in 1..3 : VAdd(VAdd(RwgP1(el, xyz, e, k, 1), RwgP1(el, xyz, e, k, 2)), RwgP1(el, xyz, e, k, 3)) = RwgInt(el, xyz, e, k)

=============================================================================

------------------------------- MODULE Pool -------------------------------
(* The process pool of bempp_cl/api/utils/pool.py: an extension of the specification beyond the listed properties   *)
(* (DESIGN 10).  One host, NW worker processes, one job queue and one result queue per worker.                       *)
(*                                                                                                                   *)
(*   host   : map / starmap / execute  =  put one job per worker (in worker order), then get one result per worker   *)
(*            (in worker order); shutdown = put None to every worker, join every worker                              *)
(*   worker : loop  job := get();  None -> put "FINISHED", exit;  otherwise run the function and put the result;     *)
(*            an exception in the function is printed and NOTHING is put (as written)                                *)
(*                                                                                                                   *)
(* Each critical section is one action.  Calls is the program the host runs: a sequence of records                   *)
(*   [nargs |-> length of the argument list, fails |-> set of workers whose function raises]                         *)
(* followed by shutdown.  The requirement configuration has nargs = NW and fails = {} in every call; the as-written   *)
(* behaviour for other programs is explored by the negative configurations (TLC must report the deadlock / the lost  *)
(* arguments).                                                                                                       *)
EXTENDS Integers, Sequences, FiniteSets, TLC

CONSTANTS NW, Calls
Workers == 0..(NW - 1)
Min(a, b) == IF a < b THEN a ELSE b

NoneJob == <<0, 0>>            \* the job None (TLC compares only values of one shape, so it is a pair like the others)
Finished == <<-1, -1, -1>>     \* the message "FINISHED"
VARIABLES inq,      \* inq[w]  : sequence of jobs  <<call, arg>>  or NoneJob
          outq,     \* outq[w] : sequence of results  <<worker, call, arg>>  or Finished
          wstate,   \* wstate[w] \in {"waiting", "running", "exited"}
          wjob,     \* the job a running worker holds
          hpc,      \* host program counter: <<"put", call, w>>, <<"get", call, w>>, <<"stop", w>>, <<"join", w>>, <<"end">>
          results,  \* results[c] : the list returned by call c (sequence indexed by worker + 1)
          executed  \* executed[w] : sequence of <<call, arg>> run to completion by worker w (history)
vars == <<inq, outq, wstate, wjob, hpc, results, executed>>

NCalls == Len(Calls)
Init == /\ inq = [w \in Workers |-> <<>>] /\ outq = [w \in Workers |-> <<>>]
        /\ wstate = [w \in Workers |-> "waiting"] /\ wjob = [w \in Workers |-> NoneJob]
        /\ hpc = IF NCalls = 0 THEN <<"stop", 0>> ELSE <<"put", 1, 0>>
        /\ results = [c \in 1..NCalls |-> <<>>]
        /\ executed = [w \in Workers |-> <<>>]

\* ---- host ------------------------------------------------------------------------------------------------------
\* for index, arg in zip(range(nworkers), args): senders[index].put((fun, arg, options))
HostPut == /\ hpc[1] = "put"
           /\ LET c == hpc[2] w == hpc[3] n == Min(NW, Calls[c].nargs) IN
                IF w < n
                THEN /\ inq' = [inq EXCEPT ![w] = Append(@, <<c, w>>)]       \* argument number w of call c
                     /\ hpc' = <<"put", c, w + 1>>
                ELSE /\ hpc' = <<"get", c, 0>> /\ UNCHANGED inq
           /\ UNCHANGED <<outq, wstate, wjob, results, executed>>
\* return [receivers[index].get() for index in range(nworkers)]      (blocks while the queue is empty)
HostGet == /\ hpc[1] = "get"
           /\ LET c == hpc[2] w == hpc[3] IN
                IF w < NW
                THEN /\ outq[w] # <<>>
                     /\ results' = [results EXCEPT ![c] = Append(@, Head(outq[w]))]
                     /\ outq' = [outq EXCEPT ![w] = Tail(@)]
                     /\ hpc' = <<"get", c, w + 1>>
                ELSE /\ hpc' = IF c < NCalls THEN <<"put", c + 1, 0>> ELSE <<"stop", 0>>
                     /\ UNCHANGED <<outq, results>>
           /\ UNCHANGED <<inq, wstate, wjob, executed>>
\* shutdown: for index: senders[index].put(None); for worker: worker.join()
HostStop == /\ hpc[1] = "stop"
            /\ LET w == hpc[2] IN
                 IF w < NW THEN inq' = [inq EXCEPT ![w] = Append(@, NoneJob)] /\ hpc' = <<"stop", w + 1>>
                 ELSE hpc' = <<"join", 0>> /\ UNCHANGED inq
            /\ UNCHANGED <<outq, wstate, wjob, results, executed>>
HostJoin == /\ hpc[1] = "join"
            /\ LET w == hpc[2] IN
                 IF w < NW THEN wstate[w] = "exited" /\ hpc' = <<"join", w + 1>>
                 ELSE hpc' = <<"end">>
            /\ UNCHANGED <<inq, outq, wstate, wjob, results, executed>>

\* ---- worker ----------------------------------------------------------------------------------------------------
WorkerGet(w) == /\ wstate[w] = "waiting" /\ inq[w] # <<>>
                /\ LET j == Head(inq[w]) IN
                     IF j = NoneJob
                     THEN /\ wstate' = [wstate EXCEPT ![w] = "exited"]
                          /\ outq' = [outq EXCEPT ![w] = Append(@, Finished)]
                          /\ UNCHANGED wjob
                     ELSE /\ wstate' = [wstate EXCEPT ![w] = "running"] /\ wjob' = [wjob EXCEPT ![w] = j] /\ UNCHANGED outq
                /\ inq' = [inq EXCEPT ![w] = Tail(@)]
                /\ UNCHANGED <<hpc, results, executed>>
WorkerRun(w) == /\ wstate[w] = "running"
                /\ LET j == wjob[w] IN
                     IF w \in Calls[j[1]].fails
                     THEN UNCHANGED <<outq, executed>>                                  \* traceback.print_exc(); nothing is put
                     ELSE /\ outq' = [outq EXCEPT ![w] = Append(@, <<w, j[1], j[2]>>)]
                          /\ executed' = [executed EXCEPT ![w] = Append(@, j)]
                /\ wstate' = [wstate EXCEPT ![w] = "waiting"] /\ wjob' = [wjob EXCEPT ![w] = NoneJob]
                /\ UNCHANGED <<inq, hpc, results>>

Next == HostPut \/ HostGet \/ HostStop \/ HostJoin \/ \E w \in Workers : WorkerGet(w) \/ WorkerRun(w)
Terminated == hpc = <<"end">>
Spec == Init /\ [][Next]_vars /\ WF_vars(Next)

\* ---- properties ------------------------------------------------------------------------------------------------
\* "map operations are guaranteed to execute on all processes": a finished call returns, in worker order, what worker w computed from
\* argument w of THAT call
ResultsSound == \A c \in 1..NCalls : \A i \in 1..Len(results[c]) : results[c][i] = <<i - 1, c, i - 1>>
ResultsComplete == Terminated => \A c \in 1..NCalls : Len(results[c]) = NW
\* every worker ran every call exactly once, in call order
ExecutedOnce == Terminated => \A w \in Workers : executed[w] = [c \in 1..NCalls |-> <<c, w>>]
\* every argument of every call is handed to some worker (violated, as written, when a call has more arguments than workers)
AllArgsUsed == \A c \in 1..NCalls : (hpc[1] = "get" /\ hpc[2] = c) => Calls[c].nargs <= NW
\* queues never hold more than one pending job / result per worker (the host is synchronous)
QueuesBounded == \A w \in Workers : Len(inq[w]) <= 1 /\ Len(outq[w]) <= 1
\* the only state without successor is the regular end (otherwise: TLC reports the deadlock)
NoStuck == (~ ENABLED Next) => Terminated
Termination == <>Terminated

\* programs
Good2 == <<[nargs |-> NW, fails |-> {}], [nargs |-> NW, fails |-> {}]>>
Good3 == <<[nargs |-> NW, fails |-> {}], [nargs |-> NW, fails |-> {}], [nargs |-> NW, fails |-> {}]>>
WithException == <<[nargs |-> NW, fails |-> {}], [nargs |-> NW, fails |-> {1}], [nargs |-> NW, fails |-> {}]>>
ShortArgs == <<[nargs |-> NW - 1, fails |-> {}]>>
LongArgs == <<[nargs |-> NW + 1, fails |-> {}]>>
=============================================================================

SPECIFICATION TraceSpec
CONSTANTS
  Slots = {1, 2}
  Kinds = {"slp", "hyp", "idt", "pot", "fmm", "mhyp"}
  RegVals = {1, 4}
  SingVals = {3, 4}
  MassCacheKeyed = FALSE
  MassHonoursExplicit = TRUE
  FmmCacheKeyed = TRUE
  MaxDepth = 1000
  EmitJson = FALSE
INVARIANT TypeOK
INVARIANT Report
CHECK_DEADLOCK FALSE

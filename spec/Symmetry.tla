------------------------------ MODULE Symmetry ------------------------------
(***************************************************************************)
(* C03.  Actions on triangulated surfaces under which boundary operators   *)
(* must be equivariant, and the induced correspondence of mesh entities:   *)
(*   rot r      one of the 24 rotations of the integer lattice             *)
(*   shift t    translation by an integer vector                           *)
(*   scale s    dilation by an integer s (wavenumber divided by s)         *)
(*   vperm / eperm   renumbering of vertices / elements                    *)
(*   lrot p     cyclic rotation of the local vertex order of element e by  *)
(*              (e*p) % 3                                                  *)
(*   flip       reversal of every element (a,b,c) -> (a,c,b), to be        *)
(*              compared with the swapped-normals flag on the original     *)
(* A state is (mesh, actions applied so far); it carries the image and the maps *)
(*   vmap : vertex -> vertex, emap : element -> element,                   *)
(*   lmap : element -> permutation of local indices,                       *)
(* so that vertex lmap[e][i] of element emap[e] in the image is the image  *)
(* of local vertex i of element e.  TLC checks that every action maps      *)
(* entities consistently and preserves the topology on which the assembly  *)
(* plan depends (number of shared vertices of every element pair).         *)
(***************************************************************************)
EXTENDS Mesh, Universe, Polycube, Json

CONSTANTS Bases, CellSets, Actions, MaxDepth, EmitJson

\* ready-made constant values
ActionsQuick == {[kind |-> "rot", p |-> 2], [kind |-> "rot", p |-> 3], [kind |-> "rot", p |-> 6], [kind |-> "shift", p |-> 3],
                 [kind |-> "scale", p |-> 2], [kind |-> "scale", p |-> 3], [kind |-> "vperm", p |-> 0], [kind |-> "eperm", p |-> 1],
                 [kind |-> "lrot", p |-> 1], [kind |-> "lrot", p |-> 2], [kind |-> "flip", p |-> 0]}
ActionsThorough == ActionsQuick \cup {[kind |-> "rot", p |-> 4], [kind |-> "rot", p |-> 5], [kind |-> "eperm", p |-> 3], [kind |-> "shift", p |-> -2]}
ActionsShift == {[kind |-> "shift", p |-> 3], [kind |-> "shift", p |-> -2], [kind |-> "shift", p |-> 6]}    \* 6: far apart (quadrature-limited clauses)
CellsQuick == {{<<0, 0, 0>>, <<1, 0, 0>>}}
CellsThorough == {{<<0, 0, 0>>, <<1, 0, 0>>}, {<<0, 0, 0>>, <<1, 0, 0>>, <<1, 1, 0>>}, {<<0, 0, 0>>}}

VARIABLES inp, src, img
vars == <<inp, src, img>>

Rotations == <<   \* rows of the rotation matrices (determinant +1)
    <<<<1, 0, 0>>, <<0, 1, 0>>, <<0, 0, 1>>>>,
    <<<<0, -1, 0>>, <<1, 0, 0>>, <<0, 0, 1>>>>,        \* 90 degrees about z
    <<<<0, 0, 1>>, <<1, 0, 0>>, <<0, 1, 0>>>>,         \* 120 degrees about (1,1,1)
    <<<<-1, 0, 0>>, <<0, -1, 0>>, <<0, 0, 1>>>>,       \* 180 degrees about z
    <<<<1, 0, 0>>, <<0, 0, -1>>, <<0, 1, 0>>>>,        \* 90 degrees about x
    <<<<0, 0, -1>>, <<0, -1, 0>>, <<-1, 0, 0>>>> >>    \* 180 degrees about (1,0,-1)
MatVec(m, v) == <<VDot(m[1], v), VDot(m[2], v), VDot(m[3], v)>>
Det(m) == VDot(m[1], VCross(m[2], m[3]))

Meshes == {[name |-> b, xyz |-> BaseXyz(b), el |-> BaseEl(b)] : b \in Bases}
          \cup {[name |-> "cube" \o ToString(c), xyz |-> Surface(c, 0).xyz, el |-> Surface(c, 0).el] : c \in CellSets}

RotTri(t, k) == IF k = 0 THEN t ELSE IF k = 1 THEN <<t[2], t[3], t[1]>> ELSE <<t[3], t[1], t[2]>>
\* local index of the image of local vertex i after rotating the triple by k: new[j] = old[((j-1+k) % 3)+1]
RotIdx(i, k) == ((i - 1 - k + 3) % 3) + 1

Apply(m, a) ==
    LET nv == Len(m.xyz) ne == Len(m.el)
        idV == [v \in 1..nv |-> v] idE == [e \in 1..ne |-> e] idL == [e \in 1..ne |-> <<1, 2, 3>>]
    IN CASE a.kind = "rot" ->
              [xyz |-> [v \in 1..nv |-> MatVec(Rotations[a.p], m.xyz[v])], el |-> m.el, vmap |-> idV, emap |-> idE, lmap |-> idL, s |-> 1]
         [] a.kind = "shift" ->
              [xyz |-> [v \in 1..nv |-> VAdd(m.xyz[v], <<a.p, -2 * a.p, 1>>)], el |-> m.el, vmap |-> idV, emap |-> idE, lmap |-> idL, s |-> 1]
         [] a.kind = "scale" ->
              [xyz |-> [v \in 1..nv |-> VScale(a.p, m.xyz[v])], el |-> m.el, vmap |-> idV, emap |-> idE, lmap |-> idL, s |-> a.p]
         [] a.kind = "vperm" ->      \* v -> nv + 1 - v
              [xyz |-> [v \in 1..nv |-> m.xyz[nv + 1 - v]],
               el |-> [e \in 1..ne |-> <<nv + 1 - m.el[e][1], nv + 1 - m.el[e][2], nv + 1 - m.el[e][3]>>],
               vmap |-> [v \in 1..nv |-> nv + 1 - v], emap |-> idE, lmap |-> idL, s |-> 1]
         [] a.kind = "eperm" ->      \* e -> ((e + p - 1) % ne) + 1 after reversing the order
              [xyz |-> m.xyz, el |-> [f \in 1..ne |-> m.el[ne + 1 - (((f - 1 + a.p) % ne) + 1)]],
               vmap |-> idV,
               emap |-> [e \in 1..ne |-> CHOOSE f \in 1..ne : ne + 1 - (((f - 1 + a.p) % ne) + 1) = e],
               lmap |-> idL, s |-> 1]
         [] a.kind = "lrot" ->
              [xyz |-> m.xyz, el |-> [e \in 1..ne |-> RotTri(m.el[e], (e * a.p) % 3)], vmap |-> idV, emap |-> idE,
               lmap |-> [e \in 1..ne |-> [i \in 1..3 |-> RotIdx(i, (e * a.p) % 3)]], s |-> 1]
         [] a.kind = "flip" ->
              [xyz |-> m.xyz, el |-> [e \in 1..ne |-> <<m.el[e][1], m.el[e][3], m.el[e][2]>>], vmap |-> idV, emap |-> idE,
               lmap |-> [e \in 1..ne |-> <<1, 3, 2>>], s |-> 1]

\* The system: a mesh is chosen (the identity image), then actions are applied one after the other, each to the current image; the maps
\* compose.  MaxDepth bounds the number of actions (1: every (mesh, action) pair, the states that are replayed; 2: every product of two).
IdImage(m) == LET nv == Len(m.xyz) ne == Len(m.el) IN
    [xyz |-> m.xyz, el |-> m.el, vmap |-> [v \in 1..nv |-> v], emap |-> [e \in 1..ne |-> e], lmap |-> [e \in 1..ne |-> <<1, 2, 3>>], s |-> 1]
Compose(old, step) ==
    [xyz |-> step.xyz, el |-> step.el,
     vmap |-> [v \in DOMAIN old.vmap |-> step.vmap[old.vmap[v]]],
     emap |-> [e \in DOMAIN old.emap |-> step.emap[old.emap[e]]],
     lmap |-> [e \in DOMAIN old.lmap |-> [i \in 1..3 |-> step.lmap[old.emap[e]][old.lmap[e][i]]]],
     s |-> old.s * step.s]
Init == /\ inp \in {[mesh |-> m.name, acts |-> <<>>] : m \in Meshes}
        /\ src = (CHOOSE m \in Meshes : m.name = inp.mesh)
        /\ img = IdImage(CHOOSE m \in Meshes : m.name = inp.mesh)
Act(a) == /\ Len(inp.acts) < MaxDepth
          /\ inp' = [inp EXCEPT !.acts = Append(@, a)]
          /\ img' = Compose(img, Apply([xyz |-> img.xyz, el |-> img.el], a))
          /\ UNCHANGED src
Next == \E a \in Actions : Act(a)
Spec == Init /\ [][Next]_vars

\* the maps are consistent: the image of local vertex i of e is local vertex lmap[e][i] of emap[e]
MapsConsistent ==
    \A e \in 1..Len(src.el), i \in 1..3 :
        img.el[img.emap[e]][img.lmap[e][i]] = img.vmap[src.el[e][i]]
\* coordinates follow the vertex map (up to the motion / scaling)
GeometryFollows ==
    \A e \in 1..Len(src.el) :
        J2(img.el, img.xyz, img.emap[e]) = img.s * img.s * img.s * img.s * J2(src.el, src.xyz, e)
\* the topology the assembly plan depends on is preserved
PlanPreserved ==
    \A e \in 1..Len(src.el), f \in 1..Len(src.el) :
        NShared(img.el, img.emap[e], img.emap[f]) = NShared(src.el, e, f)
Kinds == {inp.acts[n].kind : n \in 1..Len(inp.acts)}
OrientationRule ==
    /\ \A n \in 1..Len(inp.acts) : inp.acts[n].kind = "rot" => Det(Rotations[inp.acts[n].p]) = 1
    /\ ("flip" \notin Kinds => (IsOriented(src.el) <=> IsOriented(img.el)))

\* remap cases (which local vertices are shared) occurring in the image: coverage statistics for the harness
EdgeCases(el) == {Matches(el, p[1], p[2]) : p \in EdgeAdjPairs(el)}
VertexCases(el) == {Matches(el, p[1], p[2]) : p \in VertexAdjPairs(el)}

Obligation ==
    [ mesh |-> inp.mesh, act |-> inp.acts[1], xyz |-> src.xyz, el |-> src.el,
      xyz2 |-> img.xyz, el2 |-> img.el, vmap |-> img.vmap, emap |-> img.emap, lmap |-> img.lmap, s |-> img.s,
      closed |-> IsClosed(src.el),
      edgeCases |-> Cardinality(EdgeCases(img.el)), vertexCases |-> Cardinality(VertexCases(img.el)) ]
\* the states that are replayed into the library: one action applied
Emit == (EmitJson /\ Len(inp.acts) = 1) => PrintT("OBL " \o ToJson(Obligation))
=============================================================================

----------------------------- MODULE GridModel -----------------------------
(***************************************************************************)
(* C11.  State machine whose behaviours are: pick a grid from universe U1  *)
(* (sub-complex of a base mesh, local-rotation pattern, optional           *)
(* orientation reversal), run the library's topology algorithms step by    *)
(* step (transcribed from bempp_cl/api/grid/grid.py), stop.                *)
(*                                                                         *)
(* Invariants: at termination the algorithm's tables satisfy the           *)
(* numbering-free requirements of Mesh.tla.  The terminal state is emitted *)
(* as one JSON obligation ("req": requirement side, used as the oracle for *)
(* the real library; "algo": the algorithm's own numbering, compared with  *)
(* the library only to detect MODEL-DRIFT).                                *)
(***************************************************************************)
EXTENDS Mesh, Universe, SequencesExt, FiniteSetsExt, Json

CONSTANTS Bases,        \* subset of BaseNames explored
          RotPatterns,  \* subset of 0..2 : element e is rotated by (e*r) % 3
          Flips,        \* subset of {0,1}: 1 = every element reversed
          MaxDrop,      \* keep sub-complexes with |sub| <= MaxKeep or |sub| >= n - MaxDrop
          MaxKeep,
          EmitJson      \* TRUE: print obligations

VARIABLES inp,      \* [base, sub, rot, flip]
          el, xyz,  \* the grid handed to Grid(vertices, elements)
          pc,       \* "enum" | "adj" | "done"
          slot,     \* next (element, local edge) slot, 1..3n+1
          dict,     \* set of <<edge (2-set), index>>: the typed dict of _numba_enumerate_edges
          edgeSeq,  \* sequence of sorted pairs <<lo,hi>> in first-seen order
          elemEdges,\* e -> <<i1,i2,i3>> (1-based edge numbers)
          adjE, adjV \* sets of records produced by the adjacency search

vars == <<inp, el, xyz, pc, slot, dict, edgeSeq, elemEdges, adjE, adjV>>

---------------------------------------------------------------------------
\* universe
SortedSeq(S) == SetToSortSeq(S, <)
RotTri(t, k) == IF k = 0 THEN t ELSE IF k = 1 THEN <<t[2], t[3], t[1]>> ELSE <<t[3], t[1], t[2]>>
FlipTri(t, f) == IF f = 0 THEN t ELSE <<t[1], t[3], t[2]>>

SubEl(base, sub, r, f) ==
    LET s == SortedSeq(sub)
        raw == [i \in 1..Len(s) |-> FlipTri(RotTri(BaseEl(base)[s[i]], (s[i] * r) % 3), f)]
        used == UNION {{raw[i][1], raw[i][2], raw[i][3]} : i \in 1..Len(s)}
        ren(v) == Cardinality({u \in used : u <= v})
    IN [i \in 1..Len(s) |-> <<ren(raw[i][1]), ren(raw[i][2]), ren(raw[i][3])>>]

SubXyz(base, sub) ==
    LET used == UNION {{BaseEl(base)[i][1], BaseEl(base)[i][2], BaseEl(base)[i][3]} : i \in sub}
        us == SortedSeq(used)
    IN [i \in 1..Len(us) |-> BaseXyz(base)[us[i]]]

SubsOf(base) ==
    LET n == Len(BaseEl(base))
    IN {s \in SUBSET (1..n) : s # {} /\ (Cardinality(s) <= MaxKeep \/ Cardinality(s) >= n - MaxDrop)}

Inputs == UNION {{[base |-> b, sub |-> s, rot |-> r, flip |-> f] :
                     s \in SubsOf(b), r \in RotPatterns, f \in Flips} : b \in Bases}

---------------------------------------------------------------------------
\* transcription of the pair search in grid.py:987-1044 (0-based there, 1-based here)
RECURSIVE FirstCommon(_, _, _)
\* _find_first_common_array_index_pair_from_position(array1, array2, start)
FirstCommon(a1, a2, start) ==
    IF start > 3 THEN <<0, 0>>   \* the library raises ValueError
    ELSE LET js == {j \in 1..3 : a2[j] = a1[start]}
         IN IF js # {} THEN <<start, Min(js)>> ELSE FirstCommon(a1, a2, start + 1)

\* _find_two_common_array_index_pairs + the Bempp-3 swap; result <<<<i0,i1>>,<<j0,j1>>>>
TwoCommon(a1, a2) ==
    LET p == FirstCommon(a1, a2, 1)
        q == FirstCommon(a1, a2, p[1] + 1)
    IN IF q[2] < p[2] THEN <<<<q[1], p[1]>>, <<q[2], p[2]>>>>
       ELSE <<<<p[1], q[1]>>, <<p[2], q[2]>>>>

---------------------------------------------------------------------------
N == Len(el)

Init ==
    /\ inp \in Inputs
    /\ el = SubEl(inp.base, inp.sub, inp.rot, inp.flip)
    /\ xyz = SubXyz(inp.base, inp.sub)
    /\ pc = "enum" /\ slot = 1 /\ dict = {} /\ edgeSeq = <<>>
    /\ elemEdges = [e \in 1..Cardinality(inp.sub) |-> <<0, 0, 0>>]
    /\ adjE = {} /\ adjV = {}

\* one iteration of the double loop of _numba_enumerate_edges
EnumStep ==
    /\ pc = "enum" /\ slot <= 3 * N
    /\ LET e == ((slot - 1) \div 3) + 1
           k == ((slot - 1) % 3) + 1
           ed == EdgeOf(el, e, k)
           lo == Min(ed) hi == Max(ed)
           hit == {d \in dict : d[1] = ed}
       IN IF hit = {}
          THEN /\ dict' = dict \cup {<<ed, Len(edgeSeq) + 1>>}
               /\ edgeSeq' = Append(edgeSeq, <<lo, hi>>)
               /\ elemEdges' = [elemEdges EXCEPT ![e][k] = Len(edgeSeq) + 1]
          ELSE /\ UNCHANGED <<dict, edgeSeq>>
               /\ elemEdges' = [elemEdges EXCEPT ![e][k] = (CHOOSE d \in hit : TRUE)[2]]
    /\ slot' = slot + 1
    /\ UNCHANGED <<inp, el, xyz, pc, adjE, adjV>>

EnumDone ==
    /\ pc = "enum" /\ slot = 3 * N + 1
    /\ pc' = "adj"
    /\ UNCHANGED <<inp, el, xyz, slot, dict, edgeSeq, elemEdges, adjE, adjV>>

\* _element_filter + _find_edge_adjacency / _find_vertex_adjacency
AdjStep ==
    /\ pc = "adj"
    /\ adjE' = {[e |-> p[1], f |-> p[2], idx |-> TwoCommon(el[p[1]], el[p[2]])] : p \in EdgeAdjPairs(el)}
    /\ adjV' = {[e |-> p[1], f |-> p[2], idx |-> FirstCommon(el[p[1]], el[p[2]], 1)] : p \in VertexAdjPairs(el)}
    /\ pc' = "done"
    /\ UNCHANGED <<inp, el, xyz, slot, dict, edgeSeq, elemEdges>>

Next == EnumStep \/ EnumDone \/ AdjStep
Spec == Init /\ [][Next]_vars

---------------------------------------------------------------------------
\* requirement checks on the algorithm's result
Done == pc = "done"

InputSane == NonDegenerate(el, xyz)

EdgesOnce ==   \* each undirected edge is listed exactly once
    Done => /\ {{edgeSeq[i][1], edgeSeq[i][2]} : i \in 1..Len(edgeSeq)} = Edges(el)
            /\ Len(edgeSeq) = Cardinality(Edges(el))

ElemEdgesConsistent ==
    Done => \A e \in EIdx(el), k \in 1..3 :
               LET i == elemEdges[e][k]
               IN i \in 1..Len(edgeSeq) /\ {edgeSeq[i][1], edgeSeq[i][2]} = EdgeOf(el, e, k)

EdgeAdjExact ==  \* exactly the pairs sharing two vertices, with correctly matched local indices
    Done => /\ {<<a.e, a.f>> : a \in adjE} = EdgeAdjPairs(el)
            /\ \A a \in adjE :
                 /\ {<<a.idx[1][1], a.idx[2][1]>>, <<a.idx[1][2], a.idx[2][2]>>} = Matches(el, a.e, a.f)
                 /\ a.idx[2][1] < a.idx[2][2]       \* Bempp-3 order relied on by the Duffy remap offsets
                 /\ a.idx[1][1] # a.idx[1][2]

VertexAdjExact ==
    Done => /\ {<<a.e, a.f>> : a \in adjV} = VertexAdjPairs(el)
            /\ \A a \in adjV : {a.idx} = Matches(el, a.e, a.f)

\* facts about the requirement side itself (sanity of the oracle)
ReqSane ==
    /\ RefineSound(el, xyz) /\ BarySound(el, xyz)
    /\ \A p \in EdgeAdjPairs(el) : <<p[2], p[1]>> \in EdgeAdjPairs(el)
    /\ BoundaryVerts(el) \subseteq VertsUsed(el)
    /\ (inp.base \in ClosedBases /\ Cardinality(inp.sub) = Len(BaseEl(inp.base)))
          => (IsClosed(el) /\ IsOriented(el) /\ Euler(el) = 2)
    /\ IsClosed(el) => BoundaryEdges(el) = {}

---------------------------------------------------------------------------
\* obligation emission
Seq2(S) == SetToSeq(S)
ReqJson ==
    [ nv |-> Len(xyz), ne |-> N,
      edges |-> Seq2({SortedSeq(ed) : ed \in Edges(el)}),
      elemEdges |-> [e \in 1..N |-> [k \in 1..3 |-> SortedSeq(EdgeOf(el, e, k))]],
      edgeNbrs |-> Seq2({<<SortedSeq(ed), SortedSeq(EdgeNbrs(el, ed))>> : ed \in Edges(el)}),
      vertexNbrs |-> [v \in 1..Len(xyz) |-> SortedSeq(VertexNbrs(el, v))],
      elemNbrs |-> [e \in 1..N |-> SortedSeq(ElementNbrs(el, e))],
      edgeAdj |-> Seq2({<<p[1], p[2], Seq2(Matches(el, p[1], p[2]))>> : p \in EdgeAdjPairs(el)}),
      vertexAdj |-> Seq2({<<p[1], p[2], Seq2(Matches(el, p[1], p[2]))>> : p \in VertexAdjPairs(el)}),
      bndEdges |-> Seq2({SortedSeq(ed) : ed \in BoundaryEdges(el)}),
      bndVerts |-> SortedSeq(BoundaryVerts(el)),
      cross |-> [e \in 1..N |-> Cross(el, xyz, e)],
      j2 |-> [e \in 1..N |-> J2(el, xyz, e)],
      centroid3 |-> [e \in 1..N |-> Centroid3(el, xyz, e)],
      diam2 |-> [e \in 1..N |-> Diam2(el, xyz, e)],
      refine |-> [e \in 1..N |-> Seq2({CycNF(t) : t \in RefineChildren(el, xyz, e)})],
      bary |-> [e \in 1..N |-> Seq2({CycNF(t) : t \in BaryChildren(el, xyz, e)})],
      closed |-> IsClosed(el), oriented |-> IsOriented(el), manifold |-> IsManifoldEdge(el),
      euler |-> Euler(el) ]

AlgoJson ==
    [ edges |-> edgeSeq, elemEdges |-> elemEdges,
      edgeAdj |-> Seq2({<<a.e, a.f, a.idx[1][1], a.idx[1][2], a.idx[2][1], a.idx[2][2]>> : a \in adjE}),
      vertexAdj |-> Seq2({<<a.e, a.f, a.idx[1], a.idx[2]>> : a \in adjV}) ]

\* deliberately non-contiguous domain indices {0,5,10}, fixed by the base element number
DomOf(i) == (i % 3) * 5
Obligation ==
    [ kind |-> "grid", dom |-> [i \in 1..N |-> DomOf(SortedSeq(inp.sub)[i])], base |-> inp.base, sub |-> SortedSeq(inp.sub), rot |-> inp.rot, flip |-> inp.flip,
      xyz |-> xyz, el |-> el, req |-> ReqJson, algo |-> AlgoJson ]

Emit == (Done /\ EmitJson) => PrintT("OBL " \o ToJson(Obligation))

=============================================================================

---------------------------- MODULE GalerkinModel ----------------------------
(***************************************************************************)
(* Generator of exact Galerkin obligations (C01, C02, C03, C04, C07, C13). *)
(* A behaviour picks a surface (a polycube of universe U2 or a base mesh   *)
(* of U1) and walks over its elements; the state reached for test element  *)
(* t emits the exact 3x3 blocks of t against every trial element for the   *)
(* probe kernels of GalerkinExact.  TLC checks on the way:                 *)
(*  - the premises of the Calderon / Green identities for every polycube   *)
(*    (closed, oriented, manifold, Euler = 2(components - genus));         *)
(*  - consistency of the oracle itself: symmetry of the r2 blocks, the     *)
(*    area identity sum N_one = 3600, and Gauss' theorem                   *)
(*    sum_s int_t lambda_i int_s (x-y).n_y = -3 Vol int_t lambda_i         *)
(*    which holds iff the surface is closed and outward oriented.          *)
(***************************************************************************)
EXTENDS GalerkinExact, Polycube, Universe, Json

CONSTANTS BoxDims,     \* set of boxes <<nx,ny,nz>>; all face-connected manifold cell sets in them are used
          Extra,       \* set of explicit cell sets (e.g. genus-1 ring, two components)
          Patterns,    \* diagonal patterns, subset of {0,1}
          MeshBases,   \* names of U1 base meshes to add (whole meshes)
          MaxCells,
          EmitJson

VARIABLES inp,   \* [kind |-> "cube", cells, p] or [kind |-> "base", name]
          surf,  \* [xyz, el]
          row    \* 0 = header, t = block row of test element t

vars == <<inp, surf, row>>

\* ready-made constant values (cfg: BoxDims <- BoxesQuick, ...)
BoxesNone == {}
BoxesTiny == {<<2, 1, 1>>}
BoxesQuick == {<<2, 2, 1>>, <<3, 1, 1>>}
BoxesThorough == {<<2, 2, 2>>, <<3, 1, 1>>}
Ring3x3 == {<<i, j, 0>> : i \in 0..2, j \in 0..2} \ {<<1, 1, 0>>}      \* genus 1
TwoCubes == {<<0, 0, 0>>, <<2, 0, 0>>}                                  \* two components
ExtraNone == {}
ExtraThorough == {Ring3x3, TwoCubes}

Box(d) == {<<i, j, k>> : i \in 0..(d[1] - 1), j \in 0..(d[2] - 1), k \in 0..(d[3] - 1)}
CubeInputs ==
    UNION {{[kind |-> "cube", cells |-> c, p |-> p, name |-> ""] :
                c \in {c \in (SUBSET Box(d)) : c # {} /\ Cardinality(c) <= MaxCells /\ FaceConnected(c)}, p \in Patterns}
           : d \in BoxDims}
    \cup {[kind |-> "cube", cells |-> c, p |-> p, name |-> ""] : c \in Extra, p \in Patterns}
BaseInputs == {[kind |-> "base", cells |-> {}, p |-> 0, name |-> n] : n \in MeshBases}

SurfOf(i) == IF i.kind = "cube" THEN Surface(i.cells, i.p) ELSE [xyz |-> BaseXyz(i.name), el |-> BaseEl(i.name)]

Init ==
    /\ inp \in {i \in CubeInputs : GoodSolid(i.cells, i.p)} \cup BaseInputs
    /\ surf = SurfOf(inp)
    /\ row = 0
Next ==
    /\ row < Len(surf.el)
    /\ row' = row + 1
    /\ UNCHANGED <<inp, surf>>
Spec == Init /\ [][Next]_vars

El == surf.el
Xyz == surf.xyz
N == Len(El)

---------------------------------------------------------------------------
\* premises of C01/C02 for polycubes
Genus0Or1Euler == Euler(El) \in {2 * NComponents(inp.cells), 2 * NComponents(inp.cells) - 2}
Premises ==
    (row = 0 /\ inp.kind = "cube") =>
        /\ IsClosed(El) /\ IsOriented(El) /\ IsManifoldEdge(El) /\ NonDegenerate(El, Xyz)
        /\ \A e \in 1..N : J2(El, Xyz, e) = 1
        /\ Genus0Or1Euler
        /\ CoordsSmall(Xyz)

\* the oracle is self-consistent
BlkR2(t, s) == LET f(i, j) == NR2(El, Xyz, t, i, s, j) IN Block(f)
BlkDl(t, s) == LET f(i, j) == NDl(El, Xyz, t, i, s, j) IN Block(f)
BlkAdl(t, s) == LET f(i, j) == NAdl(El, Xyz, t, i, s, j) IN Block(f)
OracleSane ==
    row > 0 =>
        /\ \A s \in 1..N : \A i \in 1..3, j \in 1..3 :
              /\ NR2(El, Xyz, row, i, s, j) = NR2(El, Xyz, s, j, row, i)
              /\ NDl(El, Xyz, row, i, s, j) = NAdl(El, Xyz, s, j, row, i)
        /\ \A i \in 1..3 : NR2(El, Xyz, row, i, row, i) > 0
\* Gauss: sum over trial elements and trial functions of the dl numerators = -360 Vol MA(i)
Volume6 == LET f(e) == VDot(P(El, Xyz, e, 1), Cross(El, Xyz, e)) IN
           LET RECURSIVE S(_) S(e) == IF e = 0 THEN 0 ELSE f(e) + S(e - 1) IN S(N)   \* 6 Vol for closed oriented
RECURSIVE DlRowSum(_, _)
DlRowSum(i, s) == IF s = 0 THEN 0
                  ELSE NDl(El, Xyz, row, i, s, 1) + NDl(El, Xyz, row, i, s, 2) + NDl(El, Xyz, row, i, s, 3) + DlRowSum(i, s - 1)
GaussTheorem ==
    (row > 0 /\ IsClosed(El) /\ IsOriented(El)) =>
        /\ \A i \in 1..3 : 6 * DlRowSum(i, N) = -360 * Volume6 * MA(i)
        /\ inp.kind = "cube" => Volume6 = 6 * Cardinality(inp.cells)

---------------------------------------------------------------------------
Header ==
    [ kind |-> "surface", id |-> ToString(inp), source |-> inp.kind, name |-> inp.name,
      cells |-> SetToSeq(inp.cells), p |-> inp.p,
      xyz |-> Xyz, el |-> El,
      j2 |-> [e \in 1..N |-> J2(El, Xyz, e)],
      cross |-> [e \in 1..N |-> Cross(El, Xyz, e)],
      closed |-> IsClosed(El), oriented |-> IsOriented(El), euler |-> Euler(El),
      ncomp |-> IF inp.kind = "cube" THEN NComponents(inp.cells) ELSE 0,
      volume6 |-> Volume6 ]
RowObl ==
    [ kind |-> "row", id |-> ToString(inp), t |-> row,
      r2 |-> [s \in 1..N |-> BlkR2(row, s)],
      dl |-> [s \in 1..N |-> BlkDl(row, s)],
      adl |-> [s \in 1..N |-> BlkAdl(row, s)],
      edots |-> [s \in 1..N |-> EdgeDots(El, Xyz, row, s)] ]
Emit == EmitJson => PrintT("OBL " \o ToJson(IF row = 0 THEN Header ELSE RowObl))

=============================================================================

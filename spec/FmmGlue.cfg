SPECIFICATION Spec
CONSTANTS
  NElem = 4
  NQ = 3
  NSh = 3
  IndexByElement = FALSE
  KeyFields = {"grid", "mode", "k", "order", "expansion", "ncrit", "depth"}
  Orders = {2, 4}
  Depths = {3, 4}
  MaxSteps = 5
INVARIANT IndexMapsSound
INVARIANT CacheSound
CHECK_DEADLOCK FALSE

SPECIFICATION Spec
CONSTANTS
  NW = 3
  Calls <- ShortArgs
INVARIANT ResultsSound
INVARIANT ResultsComplete
INVARIANT ExecutedOnce
INVARIANT AllArgsUsed
INVARIANT QueuesBounded
INVARIANT NoStuck
PROPERTY Termination
CHECK_DEADLOCK FALSE

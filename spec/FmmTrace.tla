------------------------------- MODULE FmmTrace -------------------------------
(* Trace validation of the backend protocol of FmmGlue.tla (part 3): the calls recorded by the stand-in backend.     *)
(* Per tree: "setup", then rounds of "update_charges", "clear_values", "evaluate" in this order.                     *)
EXTENDS Integers, Sequences, FiniteSets, TLC, Json, IOUtils

Trace == JsonDeserialize(IOEnv.TRACE_FILE).calls     \* sequence of [tree, call]
VARIABLES l, st, verdict      \* st : tree -> "none" | "ready" | "charged" | "cleared"
vars == <<l, st, verdict>>
Trees == {Trace[i].tree : i \in 1..Len(Trace)} \ {0}
Init == l = 1 /\ st = [t \in Trees |-> "none"] /\ verdict = "running"
Allowed(s, c) == \/ c = "setup" /\ s = "none"
                 \/ c = "update_charges" /\ s \in {"ready", "charged", "cleared"}
                 \/ c = "clear_values" /\ s = "charged"
                 \/ c = "evaluate" /\ s = "cleared"
After(c) == IF c = "setup" THEN "ready" ELSE IF c = "update_charges" THEN "charged" ELSE IF c = "clear_values" THEN "cleared" ELSE "ready"
Step ==
    /\ verdict = "running" /\ l <= Len(Trace)
    /\ LET e == Trace[l]
       IN IF e.tree = 0 THEN UNCHANGED <<st, verdict>>                   \* init_sources / init_targets: no tree yet
          ELSE IF Allowed(st[e.tree], e.call) THEN st' = [st EXCEPT ![e.tree] = After(e.call)] /\ UNCHANGED verdict
          ELSE verdict' = "call " \o e.call \o " on a tree in state " \o st[e.tree] \o " at event " \o ToString(l) /\ UNCHANGED st
    /\ l' = l + 1
Finish == verdict = "running" /\ l = Len(Trace) + 1 /\ verdict' = "accept" /\ UNCHANGED <<l, st>>
Next == Step \/ Finish
Spec == Init /\ [][Next]_vars
Report == verdict # "running" => PrintT("TRC " \o ToJson([id |-> 1, verdict |-> verdict, at |-> l]))
=============================================================================

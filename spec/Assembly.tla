------------------------------ MODULE Assembly ------------------------------
(***************************************************************************)
(* Requirement module for the assembly plan of a boundary operator         *)
(* (C01, C03, C04, C07, C16, C17).  An operator matrix is the sum over all *)
(* element pairs (tau, sigma) in supp(test) x supp(trial) of one local     *)
(* contribution.  The plan decides, per pair, which integrator handles it: *)
(*   "reg"  - tensor Gauss rule inside the parallel kernel (one launch per *)
(*            colour of the test space),                                   *)
(*   "coin" / "edge" / "vert" - a Duffy rule whose singularity sits on the *)
(*            shared entity: the rule's reference vertices are mapped onto *)
(*            matching local vertices of the two elements.                 *)
(* Definitions here are numbering-free; AssemblyTrace.tla validates the    *)
(* plans recorded from the real assembler against them.                    *)
(***************************************************************************)
EXTENDS Spaces

\* class of a pair on the same grid (ident) or on different grids
Class(el, ident, t, s) ==
    IF ~ident THEN "reg"
    ELSE IF t = s THEN "coin"
    ELSE IF NShared(el, t, s) = 2 THEN "edge"
    ELSE IF NShared(el, t, s) = 1 THEN "vert"
    ELSE IF NShared(el, t, s) = 0 THEN "reg"
    ELSE "dup"      \* two different elements on the same three vertices: outside every universe

\* advertised sizes of the Duffy rules (duffy_galerkin.number_of_quadrature_points)
NPoints(order, cls) ==
    LET o4 == order * order * order * order
    IN IF cls = "coin" THEN 6 * o4 ELSE IF cls = "edge" THEN 5 * o4 ELSE IF cls = "vert" THEN 2 * o4 ELSE 0

\* A remap is the pair of local vertices (1-based) onto which reference vertices 0,1 are sent
\* (edge rules) or the single local vertex onto which reference vertex 0 is sent (vertex rules).
RemapOnSharedEntity(el, cls, t, s, tmap, smap) ==
    IF cls = "coin" THEN tmap = <<>> /\ smap = <<>>
    ELSE IF cls = "edge"
         THEN /\ Len(tmap) = 2 /\ Len(smap) = 2
              /\ tmap[1] # tmap[2] /\ smap[1] # smap[2]
              /\ el[t][tmap[1]] = el[s][smap[1]]
              /\ el[t][tmap[2]] = el[s][smap[2]]
    ELSE IF cls = "vert"
         THEN /\ Len(tmap) = 1 /\ Len(smap) = 1
              /\ el[t][tmap[1]] = el[s][smap[1]]
    ELSE FALSE

\* ------------------------------------------------------------------------
\* Transcription of the offset table of singular_assembler.py:287-302 and of the order in
\* which _collect_remapped_quad_points_for_edge_adjacent_rule stacks the six remaps (0-based).
OffsetTable == <<<<-1, 0, 4>>, <<1, -1, 2>>, <<5, 3, -1>>>>
RemapOrder == <<<<0, 1>>, <<1, 0>>, <<1, 2>>, <<2, 1>>, <<0, 2>>, <<2, 0>>>>
\* the slice selected for shared local vertices (i, j) is the remap that sends the reference
\* edge onto (i, j), for all six ordered pairs
OffsetsAligned ==
    \A i \in 0..2, j \in 0..2 :
        i # j => /\ OffsetTable[i + 1][j + 1] \in 0..5
                 /\ RemapOrder[OffsetTable[i + 1][j + 1] + 1] = <<i, j>>
\* layout of the concatenated rule table [coin | 6 edge | 3 vertex]
EdgeOffset(order, i, j) == NPoints(order, "coin") + NPoints(order, "edge") * OffsetTable[i + 1][j + 1]
VertexOffset(order, i) == NPoints(order, "coin") + 6 * NPoints(order, "edge") + NPoints(order, "vert") * i
TableSize(order) == NPoints(order, "coin") + 6 * NPoints(order, "edge") + 3 * NPoints(order, "vert")
SlicesInBounds(order) ==
    /\ \A i \in 0..2, j \in 0..2 : i # j =>
          /\ EdgeOffset(order, i, j) >= NPoints(order, "coin")
          /\ EdgeOffset(order, i, j) + NPoints(order, "edge") <= NPoints(order, "coin") + 6 * NPoints(order, "edge")
          /\ (EdgeOffset(order, i, j) - NPoints(order, "coin")) % NPoints(order, "edge") = 0
    /\ \A i \in 0..2 : VertexOffset(order, i) + NPoints(order, "vert") <= TableSize(order)
    /\ \A a \in (0..2) \X (0..2), b \in (0..2) \X (0..2) :
          (a[1] # a[2] /\ b[1] # b[2] /\ a # b) => EdgeOffset(order, a[1], a[2]) # EdgeOffset(order, b[1], b[2])

=============================================================================

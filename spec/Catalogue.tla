------------------------------ MODULE Catalogue ------------------------------
(***************************************************************************)
(* C05 (and the factors used by C03).  The operator catalogue as data and  *)
(* the wavenumber routing of the Helmholtz factories.                      *)
(*                                                                         *)
(* A wavenumber is a pair <<re, im>> of small integers (units of 1/4).     *)
(* The Green's function exp(ikr)/(4 pi r) has decay rate Im k and          *)
(* oscillation Re k; the modified Helmholtz kernel exp(-wr)/(4 pi r) has   *)
(* decay w and no oscillation.                                             *)
(*   Route(site, k)  what a factory does with k, transcribed from          *)
(*                   operators/boundary/helmholtz.py and                   *)
(*                   operators/potential/helmholtz.py                      *)
(*   RoutePreservesKernel  the kernel that is finally used has             *)
(*                   (decay, oscillation) = (Im k, Re k)                   *)
(* The constant PotentialPassesImag selects the potential factories after  *)
(* (TRUE) / before (FALSE) the fix: before, they handed the complex k to   *)
(* the modified factory, whose parameter must be real.                     *)
(***************************************************************************)
EXTENDS Integers, Sequences, FiniteSets, TLC, Json

CONSTANTS Wavenumbers, PotentialPassesImag, EmitJson

WavenumbersU5 == {<<1, 0>>, <<1, 1>>, <<0, 1>>, <<-1, 1>>, <<0, 2>>, <<2, 0>>}

BoundarySites == {"boundary.single_layer", "boundary.double_layer", "boundary.adjoint_double_layer", "boundary.hypersingular"}
PotentialSites == {"potential.single_layer", "potential.double_layer"}
Sites == BoundarySites \cup PotentialSites

\* result: [family, decay, osc, ok]   (ok = FALSE: the call is rejected)
Route(site, k) ==
    IF k[1] = 0
    THEN IF site \in BoundarySites \/ PotentialPassesImag
         THEN [family |-> "modified_helmholtz", decay |-> k[2], osc |-> 0, ok |-> TRUE]
         ELSE [family |-> "modified_helmholtz", decay |-> 0, osc |-> 0, ok |-> k[2] = 0]     \* complex parameter rejected
    ELSE [family |-> "helmholtz", decay |-> k[2], osc |-> k[1], ok |-> TRUE]

\* every factory has the optional arguments below; a route that calls the modified Helmholtz factory must hand each of them on
\* (transcribed: all six sites forward all four positionally)
OptionalArgs == {"parameters", "assembler", "device_interface", "precision"}
Forwards(s, kk) == OptionalArgs

VARIABLES site, k
vars == <<site, k>>
Init == site \in Sites /\ k \in Wavenumbers
Next == FALSE /\ UNCHANGED vars
Spec == Init /\ [][Next]_vars

RoutePreservesKernel ==
    LET r == Route(site, k) IN r.ok /\ r.decay = k[2] /\ r.osc = k[1]

RouteForwardsArguments == Forwards(site, k) = OptionalArgs

\* homogeneity under x -> s x, k -> k / s (entered data, used by C03) and symmetry classes (C05)
Homogeneity == [single_layer |-> 3, double_layer |-> 2, adjoint_double_layer |-> 2, hypersingular |-> 1,
                identity |-> 2, laplace_beltrami |-> 0, electric_field |-> 2, magnetic_field |-> 2]
SymmetryClass == [single_layer |-> "symmetric", hypersingular |-> "symmetric",
                  double_layer |-> "transpose_of_adjoint", adjoint_double_layer |-> "transpose_of_double"]

Obligation == [site |-> site, re4 |-> k[1], im4 |-> k[2], route |-> Route(site, k), forwards |-> Forwards(site, k)]
Emit == EmitJson => PrintT("OBL " \o ToJson(Obligation))
=============================================================================

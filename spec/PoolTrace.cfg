SPECIFICATION TraceSpec
CONSTANTS
  NW <- TraceNW
  Calls <- TraceCalls
CONSTRAINT Track
INVARIANT ResultsSound
INVARIANT QueuesBounded
POSTCONDITION Verdict
CHECK_DEADLOCK FALSE

------------------------------- MODULE GridIO -------------------------------
(***************************************************************************)
(* C19.  Export / import of grids and grid functions as a state machine    *)
(*     Grid --Export(format, binary)--> File --Import--> Grid'             *)
(* over the abstract content of the file: cell tags "gmsh:physical",       *)
(* "gmsh:geometrical", a "domain_index" cell array, and for grid functions *)
(* the point / cell data arrays with their keys.                           *)
(*                                                                         *)
(* Requirement RoundTrip: for the Gmsh format the imported domain indices  *)
(* equal the exported ones, for every vector of (non-contiguous) indices.  *)
(* Requirement DataSelected: real data is written under "data", complex    *)
(* data under "real" and "imag"; node data as point data evaluated on the  *)
(* vertices, element data as cell data evaluated at the element centres,   *)
(* after the transformation.                                               *)
(*                                                                         *)
(* The constant ZeroFallsBack selects the import rule of io.py:30-34       *)
(* (physical tags that are ALL zero are discarded in favour of the         *)
(* geometrical tags): with TRUE TLC exhibits the vectors that do not       *)
(* round-trip (a recorded finding), with FALSE the requirement holds.      *)
(***************************************************************************)
EXTENDS Integers, Sequences, FiniteSets, TLC, Json

CONSTANTS NElem, DomVals, Formats, ZeroFallsBack, EmitJson

VARIABLES phase, dom, fmt, bin, file, dom2
vars == <<phase, dom, fmt, bin, file, dom2>>

DomVectors == [1..NElem -> DomVals]
NoTags == [i \in 1..NElem |-> -1]

Init == /\ phase = "grid" /\ dom \in DomVectors /\ fmt \in Formats /\ bin \in BOOLEAN
        /\ file = [phys |-> NoTags, geom |-> NoTags, cellidx |-> NoTags] /\ dom2 = NoTags

\* io.py:140-152: geometrical tags are 1..N in the order of a Python set of the domain indices
Rank(v) == Cardinality({w \in {dom[i] : i \in 1..NElem} : w <= v})
Export ==
    /\ phase = "grid"
    /\ file' = IF fmt = "msh" THEN [phys |-> dom, geom |-> [i \in 1..NElem |-> Rank(dom[i])], cellidx |-> NoTags]
               ELSE [phys |-> NoTags, geom |-> NoTags, cellidx |-> dom]
    /\ phase' = "file"
    /\ UNCHANGED <<dom, fmt, bin, dom2>>

AllZero(v) == \A i \in 1..NElem : v[i] = 0
Import ==
    /\ phase = "file"
    /\ dom2' = IF file.phys # NoTags /\ ~(ZeroFallsBack /\ AllZero(file.phys)) THEN file.phys
               ELSE IF file.geom # NoTags THEN file.geom
               ELSE [i \in 1..NElem |-> 0]            \* Grid(..., domain_indices=None)
    /\ phase' = "grid2"
    /\ UNCHANGED <<dom, fmt, bin, file>>

Next == Export \/ Import
Spec == Init /\ [][Next]_vars

RoundTrip == (phase = "grid2" /\ fmt = "msh") => dom2 = dom
\* what the other formats are required to keep: nothing about domain indices
OtherFormats == (phase = "grid2" /\ fmt # "msh") => dom2 = [i \in 1..NElem |-> 0]

\* data selection for grid functions (requirement only; replayed by the harness)
Keys(cplx) == IF cplx THEN {"real", "imag"} ELSE {"data"}
Where(dataType) == IF dataType = "node" THEN "point_data" ELSE "cell_data"

Obligation == [dom |-> dom, fmt |-> fmt, bin |-> bin, expect |-> IF fmt = "msh" THEN dom ELSE [i \in 1..NElem |-> 0],
               modelimport |-> dom2]
Emit == (EmitJson /\ phase = "grid2") => PrintT("OBL " \o ToJson(Obligation))
=============================================================================

--------------------------- MODULE ColouringProof ---------------------------
(* Unbounded companion of the colouring part of SpaceModel.tla (C16): the greedy element colouring of                *)
(* FunctionSpace._compute_color_map produces a valid colouring for EVERY finite or infinite set of elements and      *)
(* EVERY symmetric conflict relation ("the two elements share a global degree of freedom"), whatever the order in    *)
(* which the elements are visited.  Proved with TLAPS (tlapm); TLC checks the transcribed algorithm on the universe  *)
(* of small meshes, this proof removes the bound on the mesh for the abstract step.                                  *)
(*                                                                                                                   *)
(*   col[e] = -1            element e not coloured yet (the initial value in the code)                               *)
(*   Step(e)                e receives a colour that no conflicting element carries (the code takes the smallest    *)
(*                          such colour; minimality is irrelevant for validity and is left out of the step)         *)
EXTENDS Integers, TLAPS

CONSTANTS Elements, Conflict(_, _)
ASSUME ConflictSym == \A a, b \in Elements : Conflict(a, b) <=> Conflict(b, a)

VARIABLE col

Init == col = [e \in Elements |-> -1]
Free(e, c) == \A n \in Elements : (n # e /\ Conflict(e, n)) => col[n] # c
Step(e) == /\ col[e] = -1
           /\ \E c \in Nat : Free(e, c) /\ col' = [col EXCEPT ![e] = c]
Next == \E e \in Elements : Step(e)
Spec == Init /\ [][Next]_col

TypeOK == col \in [Elements -> Nat \cup {-1}]
Valid == \A a, b \in Elements : (a # b /\ Conflict(a, b) /\ col[a] # -1 /\ col[b] # -1) => col[a] # col[b]
Inv == TypeOK /\ Valid

LEMMA InitInv == Init => Inv
  BY DEF Init, Inv, TypeOK, Valid

LEMMA StepInv == Inv /\ [Next]_col => Inv'
<1> SUFFICES ASSUME Inv, [Next]_col PROVE Inv'
  OBVIOUS
<1>1. CASE UNCHANGED col
  BY <1>1 DEF Inv, TypeOK, Valid
<1>2. CASE Next
  <2>1. PICK e \in Elements : Step(e)
    BY <1>2 DEF Next
  <2>2. PICK c \in Nat : Free(e, c) /\ col' = [col EXCEPT ![e] = c]
    BY <2>1 DEF Step
  <2>3. TypeOK'
    BY <2>2 DEF Inv, TypeOK
  <2>4. Valid'
    <3> SUFFICES ASSUME NEW a \in Elements, NEW b \in Elements,
                        a # b, Conflict(a, b), col'[a] # -1, col'[b] # -1
                 PROVE col'[a] # col'[b]
      BY DEF Valid
    <3>1. CASE a = e
      <4>1. col'[a] = c
        BY <2>2, <3>1 DEF Inv, TypeOK
      <4>2. col'[b] = col[b]
        BY <2>2, <3>1 DEF Inv, TypeOK
      <4>3. col[b] # c
        BY <2>2, <3>1 DEF Free
      <4> QED BY <4>1, <4>2, <4>3
    <3>2. CASE b = e
      <4>1. col'[b] = c
        BY <2>2, <3>2 DEF Inv, TypeOK
      <4>2. col'[a] = col[a]
        BY <2>2, <3>2 DEF Inv, TypeOK
      <4>3. Conflict(e, a)
        BY <3>2, ConflictSym
      <4>4. col[a] # c
        BY <2>2, <3>2, <4>3 DEF Free
      <4> QED BY <4>1, <4>2, <4>4
    <3>3. CASE a # e /\ b # e
      <4>1. col'[a] = col[a] /\ col'[b] = col[b]
        BY <2>2, <3>3 DEF Inv, TypeOK
      <4> QED BY <4>1 DEF Inv, Valid
    <3> QED BY <3>1, <3>2, <3>3
  <2> QED BY <2>3, <2>4 DEF Inv
<1> QED BY <1>1, <1>2

THEOREM Safety == Spec => []Inv
  BY InitInv, StepInv, PTL DEF Spec

\* consequence used by the assembly: elements of one colour never share a global degree of freedom
THEOREM SameColourDisjoint == Inv => \A a, b \in Elements : (a # b /\ col[a] # -1 /\ col[a] = col[b]) => ~Conflict(a, b)
  BY DEF Inv, Valid
=============================================================================

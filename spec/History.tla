------------------------------ MODULE History ------------------------------
(***************************************************************************)
(* C18.  The process-wide state of bempp-cl that outlives a single call:   *)
(*   glob   the global parameter object (shared BY REFERENCE by every       *)
(*          operator created with parameters=None)                         *)
(*   pobj   an explicit parameter object handed to operators               *)
(*   op     operator slots: construction record + what was assembled       *)
(*          (weak form cached in the operator, strong form = inverse mass   *)
(*          matrix of the range space times weak form, cached as well)     *)
(*   mass   the mass-matrix cache of the (shared) function space           *)
(*                                                                         *)
(* An assembly is abstracted by its EFFECTIVE INPUTS: the quadrature       *)
(* orders it actually reads.  `last` is the observation of the latest call *)
(* and is what the conformance harness compares with the real library.     *)
(*                                                                         *)
(* Requirement (what the property demands of any behaviour):               *)
(*   SameObject        a second weak_form/strong_form returns the cached   *)
(*                     result (no re-assembly, same effective inputs)      *)
(*   ExplicitHonoured  an operator given the explicit object assembles     *)
(*                     with that object's values                           *)
(*   NoInterference    the effective inputs of an operator's first         *)
(*                     evaluation are those in force at that evaluation -  *)
(*                     they do not depend on calls made earlier on OTHER   *)
(*                     objects (what a fresh process would compute)        *)
(* The constant MassCacheKeyed selects how the space caches its mass       *)
(* matrix: FALSE = one matrix, computed at the order of its first use      *)
(* (the code before the fix; TLC then finds the shortest interfering       *)
(* history), TRUE = per quadrature order.  MassHonoursExplicit selects     *)
(* whether strong_form hands the operator's parameter object to the mass   *)
(* matrix (TRUE, since fix d373db3) or always uses the global one (FALSE). *)
(***************************************************************************)
EXTENDS Integers, Sequences, FiniteSets, TLC, Json

CONSTANTS Slots, Kinds, RegVals, SingVals, MassCacheKeyed, MassHonoursExplicit, FmmCacheKeyed, MaxDepth, EmitJson

VARIABLES glob, pobj, op, mass, fmm, last, depth, hist
vars == <<glob, pobj, op, mass, fmm, last, depth, hist>>

None == [kind |-> "none", pref |-> "-", weak |-> <<>>, strong |-> <<>>, atcreate |-> <<>>]
Params(o) == IF op[o].pref = "G" THEN glob ELSE pobj

Init ==
    /\ glob = [reg |-> 4, sing |-> 4]
    /\ pobj = [reg |-> 4, sing |-> 4]
    /\ op = [o \in Slots |-> None]
    /\ mass = {}
    /\ fmm = {}
    /\ last = [call |-> "init", slot |-> 0, res |-> <<>>]
    /\ depth = 0
    /\ hist = <<>>

Obs(call, slot, res, arg) ==
    /\ last' = [call |-> call, slot |-> slot, res |-> res]
    /\ hist' = Append(hist, [call |-> call, slot |-> slot, arg |-> arg, res |-> res])
    /\ depth' = depth + 1

SetGlobal(f, v) ==
    /\ glob' = IF f = "reg" THEN [glob EXCEPT !.reg = v] ELSE [glob EXCEPT !.sing = v]
    /\ glob' # glob
    /\ Obs("set_global", 0, <<>>, <<f, v>>)
    /\ UNCHANGED <<pobj, op, mass, fmm>>

Mutate(f, v) ==
    /\ pobj' = IF f = "reg" THEN [pobj EXCEPT !.reg = v] ELSE [pobj EXCEPT !.sing = v]
    /\ pobj' # pobj
    /\ Obs("mutate_params", 0, <<>>, <<f, v>>)
    /\ UNCHANGED <<glob, op, mass, fmm>>

\* the potential evaluator reads the regular order when it is CONSTRUCTED (numba_assemblers.potential_assembler)
Create(o, k, p) ==
    /\ op[o].kind = "none"
    /\ op' = [op EXCEPT ![o] = [kind |-> k, pref |-> p, weak |-> <<>>, strong |-> <<>>,
                                atcreate |-> IF p = "G" THEN <<glob.reg>> ELSE <<pobj.reg>>]]
    /\ Obs("create", o, <<>>, <<k, p>>)
    /\ UNCHANGED <<glob, pobj, mass, fmm>>

\* effective inputs of an assembly started now
Eff(o) == IF op[o].kind = "idt" THEN <<Params(o).reg, 0>> ELSE <<Params(o).reg, Params(o).sing>>

WeakForm(o) ==
    /\ op[o].kind \in {"slp", "hyp", "idt", "mhyp"}
    /\ LET w == IF op[o].weak = <<>> THEN Eff(o) ELSE op[o].weak
       IN /\ op' = [op EXCEPT ![o].weak = w]
          /\ Obs("weak_form", o, w, <<>>)
    /\ UNCHANGED <<glob, pobj, mass, fmm>>

\* an operator created with assembler='fmm' (kind "fmm", a single layer): its first weak_form asks the interface cache for an interface
\* of the current regular order (FmmCacheKeyed = TRUE, the code since fix 3c29256) - or gets whatever interface the grid already has
\* (FALSE: the cache key before the fix); the singular part is assembled with the operator's parameters.  clear_fmm_cache empties the cache.
FmmOrderNow(o) == IF FmmCacheKeyed \/ fmm = {} THEN Params(o).reg ELSE CHOOSE m \in fmm : TRUE
FmmWeakForm(o) ==
    /\ op[o].kind = "fmm"
    /\ LET w == IF op[o].weak = <<>> THEN <<FmmOrderNow(o), Params(o).sing>> ELSE op[o].weak
       IN /\ op' = [op EXCEPT ![o].weak = w]
          /\ Obs("weak_form", o, w, <<>>)
    /\ fmm' = IF op[o].weak # <<>> THEN fmm ELSE IF FmmCacheKeyed THEN fmm \cup {Params(o).reg} ELSE IF fmm = {} THEN {Params(o).reg} ELSE fmm
    /\ UNCHANGED <<glob, pobj, mass>>
ClearFmm ==
    /\ fmm # {}
    /\ fmm' = {}
    /\ Obs("clear_fmm", 0, <<>>, <<>>)
    /\ UNCHANGED <<glob, pobj, op, mass>>

\* the mass matrix is assembled by identity(space, space, space) with the GLOBAL parameters
MassOrderNow == IF MassCacheKeyed THEN glob.reg
                ELSE IF mass = {} THEN glob.reg ELSE CHOOSE m \in mass : TRUE
MassMatrix ==
    /\ mass' = IF MassCacheKeyed THEN mass \cup {glob.reg} ELSE IF mass = {} THEN {glob.reg} ELSE mass
    /\ Obs("mass_matrix", 0, <<MassOrderNow>>, <<>>)
    /\ UNCHANGED <<glob, pobj, op, fmm>>

\* strong_form hands the operator's own parameter object to the mass-matrix assembly (MassHonoursExplicit = TRUE, the code since the fix
\* d373db3); before, the mass matrix was always assembled with the global object (FALSE: negative configuration)
MassOrderFor(o) == IF MassHonoursExplicit /\ op[o].pref = "P"
                   THEN (IF MassCacheKeyed THEN pobj.reg ELSE IF mass = {} THEN pobj.reg ELSE CHOOSE m \in mass : TRUE)
                   ELSE MassOrderNow
StrongForm(o) ==
    /\ op[o].kind \in {"slp", "hyp", "idt", "mhyp"}
    /\ LET w == IF op[o].weak = <<>> THEN Eff(o) ELSE op[o].weak
           s == IF op[o].strong = <<>> THEN <<MassOrderFor(o)>> ELSE op[o].strong
       IN /\ op' = [op EXCEPT ![o].weak = w, ![o].strong = s]
          /\ Obs("strong_form", o, w \o s, <<>>)
          /\ mass' = IF op[o].strong # <<>> THEN mass
                     ELSE IF MassCacheKeyed THEN mass \cup {MassOrderFor(o)} ELSE IF mass = {} THEN {MassOrderFor(o)} ELSE mass
    /\ UNCHANGED <<glob, pobj, fmm>>

Evaluate(o) ==
    /\ op[o].kind = "pot"
    /\ Obs("evaluate", o, op[o].atcreate, <<>>)
    /\ UNCHANGED <<glob, pobj, op, mass, fmm>>

Next ==
    /\ depth < MaxDepth
    /\ \/ \E f \in {"reg"}, v \in RegVals : SetGlobal(f, v)
       \/ \E v \in SingVals : SetGlobal("sing", v)
       \/ \E v \in RegVals : Mutate("reg", v)
       \/ \E v \in SingVals : Mutate("sing", v)
       \/ \E o \in Slots, k \in Kinds, p \in {"G", "P"} : Create(o, k, p)
       \/ \E o \in Slots : WeakForm(o) \/ FmmWeakForm(o) \/ StrongForm(o) \/ Evaluate(o)
       \/ MassMatrix
       \/ ClearFmm
Spec == Init /\ [][Next]_vars

---------------------------------------------------------------------------
\* requirement
TypeOK == /\ glob.reg \in RegVals /\ glob.sing \in SingVals /\ pobj.reg \in RegVals /\ pobj.sing \in SingVals
          /\ \A o \in Slots : op[o].kind \in Kinds \cup {"none"}

\* once assembled, the forms of an operator never change
SameObject ==
    [][\A o \in Slots : /\ (op[o].weak # <<>> => op'[o].weak = op[o].weak)
                        /\ (op[o].strong # <<>> => op'[o].strong = op[o].strong)]_vars

\* first weak assembly uses the values of the operator's own parameter object at that moment
ExplicitHonoured ==
    [][\A o \in Slots : (op[o].kind \in {"slp", "hyp", "idt", "mhyp", "fmm"} /\ op[o].weak = <<>> /\ op'[o].weak # <<>>)
                            => op'[o].weak = Eff(o)]_vars

\* first strong-form evaluation uses the mass matrix a fresh process would compute now from the operator's own parameter object
\* (the global one for operators created without), whatever was called before
NoInterference ==
    [][\A o \in Slots : (op[o].kind # "none" /\ op[o].strong = <<>> /\ op'[o].strong # <<>>)
                            => op'[o].strong = <<Params(o).reg>>]_vars

\* exhaustive runs look at the state without the history variables
View == <<glob, pobj, op, mass, fmm, depth>>

Emit == (EmitJson /\ depth = MaxDepth) => PrintT("OBL " \o ToJson([hist |-> hist]))

=============================================================================

--------------------------- MODULE PotentialModel ---------------------------
(***************************************************************************)
(* C02.  Potentials of the polynomial probe kernels at points with         *)
(* half-integer coordinates, and the interior/exterior predicate of the    *)
(* polycube solids (Green's representation formula: V[a.n] - K[u] equals u *)
(* inside and 0 outside, for affine u on a closed outward oriented         *)
(* surface - premises proved in GalerkinModel/Polycube).                   *)
(* A state is (solid, point); points are given doubled (x2, all entries    *)
(* odd) so that they are cell centres and never lie on the surface.        *)
(*   Inside(x)           the cell containing x is filled                   *)
(*   Far(x)              every filled/empty cell boundary is at least 3/2  *)
(*                       away in the max-norm (>= one element diameter)    *)
(*   PotR2 / PotDl       exact integrals of lambda_j(y) |x-y|^2 and        *)
(*                       lambda_j(y) (x-y).N_y over every element          *)
(***************************************************************************)
EXTENDS GalerkinExact, Polycube, Json

CONSTANTS Solids, Reach, EmitJson
VARIABLES inp, surf, pts
vars == <<inp, surf, pts>>

Block3 == {<<i, j, k>> : i \in 0..2, j \in 0..2, k \in 0..2}
Block2 == {<<i, j, k>> : i \in 0..1, j \in 0..1, k \in 0..1}
LShape == {<<0, 0, 0>>, <<1, 0, 0>>, <<2, 0, 0>>, <<0, 1, 0>>, <<0, 2, 0>>, <<0, 0, 1>>}
SolidsQuick == {Block3}
SolidsThorough == {Block3, Block2, LShape, Block3 \ {<<1, 1, 1>>}}      \* the last one has a cavity (two boundary components)

Odd(lo, hi) == {x \in lo..hi : x % 2 # 0}
Points == Odd(-Reach, Reach + 6) \X Odd(-Reach, Reach + 6) \X Odd(-Reach, Reach + 6)
CellOf(x2) == <<(x2[1] - 1) \div 2, (x2[2] - 1) \div 2, (x2[3] - 1) \div 2>>
\* all cells within max-norm distance 1 of the cell of x have the same filling as the cell of x
Far(cells, x2) ==
    LET c == CellOf(x2)
    IN \A d \in (-1..1) \X (-1..1) \X (-1..1) : (VAdd(c, d) \in cells) = (c \in cells)

\* one behaviour per solid: the surface is built once, then the far points are visited one by one
FarPoints(cells) == SetToSeq({x \in Points : Far(cells, x)})
Init == /\ inp \in {[cells |-> c, x2 |-> <<0, 0, 0>>, k |-> 0] : c \in Solids}
        /\ surf = Surface(inp.cells, 0)
        /\ pts = FarPoints(inp.cells)
Next == /\ inp.k < Len(pts)
        /\ inp' = [inp EXCEPT !.k = inp.k + 1, !.x2 = pts[inp.k + 1]]
        /\ UNCHANGED <<surf, pts>>
Spec == Init /\ [][Next]_vars

El == surf.el
Xyz == surf.xyz
N == Len(El)
PointOffSurface == inp.k > 0 => \A e \in 1..N : \A i \in 1..3 : VScale(2, P(El, Xyz, e, i)) # inp.x2

Obligation ==
    [ cells |-> SetToSeq(inp.cells), x2 |-> inp.x2, inside |-> Inside(inp.cells, inp.x2),
      xyz |-> Xyz, el |-> El,
      r2 |-> [e \in 1..N |-> [j \in 1..3 |-> PotR2(El, Xyz, e, j, inp.x2)]],       \* value = J_e * . / 480
      dl |-> [e \in 1..N |-> [j \in 1..3 |-> PotDl(El, Xyz, e, j, inp.x2)]] ]      \* value = . / 240
Emit == (EmitJson /\ inp.k > 0) => PrintT("OBL " \o ToJson(Obligation))
=============================================================================

------------------------------- MODULE GfLife -------------------------------
(* Life cycle of grid functions (part of C14; the history side belongs to C18).                                     *)
(*                                                                                                                   *)
(* A GridFunction is either in PRIMAL representation (it holds coefficients) or in DUAL representation (it holds     *)
(* projections onto a dual space).  Reading .coefficients of a function in dual representation solves with the mass  *)
(* matrix once, caches the result and MOVES the object to the primal representation; several operators behave        *)
(* differently in the two representations (scaling, real part, sum of two dual functions with the same dual space).  *)
(* The specification tracks, per object, the representation and a symbolic denotation (an expression over the base   *)
(* coefficient vectors); every observation returned to the user must be the value of the denotation, whatever        *)
(* sequence of calls came before.  TLC generates behaviours (simulation) that are executed on the real library: the  *)
(* numbers returned by each call and the `representation` attribute of every live object after each call are         *)
(* compared with the specification.                                                                                  *)
(*                                                                                                                   *)
(*   slots 1..NSlots hold objects; all objects live in one space; dual spaces are 1 (the space itself) and 2         *)
EXTENDS Integers, Sequences, FiniteSets, TLC, Json

CONSTANTS NSlots, MaxDepth, EmitJson
Slots == 1..NSlots
Duals == {1, 2}
Scalars == {"two", "mhalf", "cplx"}

VARIABLES obj, depth, hist
vars == <<obj, depth, hist>>

None == [live |-> FALSE, rep |-> "-", born |-> "-", dual |-> 0, den |-> <<"none">>, gen |-> 0]
Init == obj = [s \in Slots |-> None] /\ depth = 0 /\ hist = <<>>

Log(call, args, res) == /\ hist' = Append(hist, [call |-> call, args |-> args, res |-> res,
                                                   reps |-> [s \in Slots |-> obj'[s].rep]])
                        /\ depth' = depth + 1

\* GridFunction(space, coefficients=c_n)  /  GridFunction(space, projections=M(d) c_n, dual_space=d)
NewPrimal(s, n) == /\ obj' = [obj EXCEPT ![s] = [live |-> TRUE, rep |-> "primal", born |-> "primal", dual |-> 1, den |-> <<"c", n>>, gen |-> depth + 1]]
                   /\ Log("new_primal", <<s, n>>, <<>>)
NewDual(s, n, d) == /\ obj' = [obj EXCEPT ![s] = [live |-> TRUE, rep |-> "dual", born |-> "dual", dual |-> d, den |-> <<"c", n>>, gen |-> depth + 1]]
                    /\ Log("new_dual", <<s, n, d>>, <<>>)
\* f.coefficients: returns the denotation; a function in dual representation becomes primal
Coefficients(s) == /\ obj[s].live
                   /\ obj' = [obj EXCEPT ![s].rep = "primal"]
                   /\ Log("coefficients", <<s>>, obj[s].den)
\* f.projections(d): an object created from projections keeps them for ever (also after it became primal) and returns them when d is
\* its own dual space; every other request computes M(d) . f.coefficients, which moves an object in dual representation to primal
Projections(s, d) == /\ obj[s].live
                     /\ obj' = IF obj[s].born = "dual" /\ d = obj[s].dual THEN obj ELSE [obj EXCEPT ![s].rep = "primal"]
                     /\ Log("projections", <<s, d>>, <<"proj", d, obj[s].den>>)
\* a * f: a new object in the CURRENT representation of f (the implementation tests the representation attribute: a function created
\* from projections whose coefficients were read in the meantime is scaled through its coefficients)
Scale(s, a, t) == /\ obj[s].live /\ t # s
                  /\ obj' = [obj EXCEPT ![t] = [live |-> TRUE, rep |-> obj[s].rep, born |-> obj[s].rep, dual |-> obj[s].dual, den |-> <<"scale", a, obj[s].den>>, gen |-> depth + 1]]
                  /\ Log("scale", <<s, a, t>>, <<>>)
\* f.real
Real(s, t) == /\ obj[s].live /\ t # s
              /\ obj' = [obj EXCEPT ![t] = [live |-> TRUE, rep |-> obj[s].rep, born |-> obj[s].rep, dual |-> obj[s].dual, den |-> <<"real", obj[s].den>>, gen |-> depth + 1]]
              /\ Log("real", <<s, t>>, <<>>)
\* f + g: dual result when both are dual with the same dual space; otherwise the coefficients of both are read (both become primal)
Add(s, u, t) == /\ obj[s].live /\ obj[u].live /\ t # s /\ t # u /\ s # u
                /\ IF obj[s].rep = "dual" /\ obj[u].rep = "dual" /\ obj[s].dual = obj[u].dual
                   THEN obj' = [obj EXCEPT ![t] = [live |-> TRUE, rep |-> "dual", born |-> "dual", dual |-> obj[s].dual, den |-> <<"add", obj[s].den, obj[u].den>>, gen |-> depth + 1]]
                   ELSE obj' = [obj EXCEPT ![s].rep = "primal", ![u].rep = "primal",
                                           ![t] = [live |-> TRUE, rep |-> "primal", born |-> "primal", dual |-> 1, den |-> <<"add", obj[s].den, obj[u].den>>, gen |-> depth + 1]]
                /\ Log("add", <<s, u, t>>, <<>>)

Next == /\ depth < MaxDepth
        /\ \/ \E s \in Slots, n \in 1..2 : NewPrimal(s, n)
           \/ \E s \in Slots, n \in 1..2, d \in Duals : NewDual(s, n, d)
           \/ \E s \in Slots : Coefficients(s)
           \/ \E s \in Slots, d \in Duals : Projections(s, d)
           \/ \E s \in Slots, t \in Slots, a \in Scalars : Scale(s, a, t)
           \/ \E s \in Slots, t \in Slots : Real(s, t)
           \/ \E s \in Slots, u \in Slots, t \in Slots : Add(s, u, t)
Spec == Init /\ [][Next]_vars

\* ---- properties of the model ------------------------------------------------------------------------------------
TypeOK == \A s \in Slots : obj[s].live => obj[s].rep \in {"primal", "dual"} /\ obj[s].dual \in Duals /\ (obj[s].rep = "dual" => obj[s].born = "dual")
\* an object (identified by the step that created it) never goes back from primal to dual
Monotone == [][\A s \in Slots : (obj[s].live /\ obj'[s].live /\ obj'[s].gen = obj[s].gen /\ obj[s].rep = "primal") => obj'[s].rep = "primal"]_vars
\* observations are functions of the denotation only: two objects with the same denotation return the same coefficients
\* (by construction of Log; stated as the requirement the replay checks against the library)
DenotationOnly == \A n \in 1..Len(hist) : hist[n].call = "coefficients" => hist[n].res[1] \in {"c", "scale", "add", "real"}

Emit == (EmitJson /\ depth = MaxDepth) => PrintT("OBL " \o ToJson([hist |-> hist]))
=============================================================================

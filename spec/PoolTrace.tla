------------------------------- MODULE PoolTrace -------------------------------
(* Trace validation for Pool.tla: the host-side queue operations recorded from the real pool (puts, gets with the     *)
(* value received, joins) must be a behaviour of the specification; the steps of the worker processes are not        *)
(* logged and are inferred by TLC (silent actions, finitely many between two host events).                           *)
EXTENDS Pool, Json, IOUtils, TLCExt

TraceData == JsonDeserialize(IOEnv.TRACE_FILE)
Log == TraceData.events             \* [ev, w, res]  with ev in "put", "stop", "get", "join"
TraceNW == TraceData.nworkers
TraceCalls == [c \in 1..TraceData.ncalls |-> [nargs |-> TraceData.nworkers, fails |-> {}]]

VARIABLE l
tvars == <<vars, l>>
TraceInit == Init /\ l = 1
Line == Log[l]
Logged(ev, w) == l <= Len(Log) /\ Line.ev = ev /\ Line.w = w /\ l' = l + 1

TPut == hpc[1] = "put" /\ hpc[3] < Min(NW, Calls[hpc[2]].nargs) /\ Logged("put", hpc[3]) /\ HostPut
TGet == hpc[1] = "get" /\ hpc[3] < NW /\ Logged("get", hpc[3]) /\ outq[hpc[3]] # <<>> /\ Line.res = Head(outq[hpc[3]]) /\ HostGet
TStop == hpc[1] = "stop" /\ hpc[2] < NW /\ Logged("stop", hpc[2]) /\ HostStop
TJoin == hpc[1] = "join" /\ hpc[2] < NW /\ Logged("join", hpc[2]) /\ HostJoin
\* bookkeeping steps of the host (loop exits) and the worker steps are silent
HostSilent == \/ hpc[1] = "put" /\ hpc[3] >= Min(NW, Calls[hpc[2]].nargs) /\ HostPut
              \/ hpc[1] = "get" /\ hpc[3] >= NW /\ HostGet
              \/ hpc[1] = "stop" /\ hpc[2] >= NW /\ HostStop
              \/ hpc[1] = "join" /\ hpc[2] >= NW /\ HostJoin
Silent == (HostSilent \/ \E w \in Workers : WorkerGet(w) \/ WorkerRun(w)) /\ UNCHANGED l
TraceNext == TPut \/ TGet \/ TStop \/ TJoin \/ Silent
TraceSpec == TraceInit /\ [][TraceNext]_tvars

\* longest matched prefix (register 1) and whether the end was reached in a terminated state (register 2)
Track == /\ (l > TLCGet(1) => TLCSet(1, l))
         /\ ((l = Len(Log) + 1 /\ Terminated) => TLCSet(2, 1))
         /\ TRUE
InitRegs == TLCSet(1, 0) /\ TLCSet(2, 0)
ASSUME InitRegs
Verdict == PrintT("TRC " \o ToJson([id |-> 1, verdict |-> IF TLCGet(2) = 1 THEN "accept" ELSE "no behaviour of Pool matches the recorded event " \o ToString(TLCGet(1)),
                                    at |-> TLCGet(1), len |-> Len(Log)]))
=============================================================================

------------------------------ MODULE Spaces ------------------------------
(***************************************************************************)
(* Requirement module for function spaces (C09, used by C04/C10/C16).      *)
(* Which mesh entities carry a degree of freedom, which (element, local    *)
(* index) slots a DOF is attached to and with what sign, and what the      *)
(* support is -- as functions of the mesh, the selected elements S and the *)
(* options include_boundary_dofs (ibd) / truncate_at_segment_edge (trunc). *)
(* Nothing here depends on how DOFs, edges or colours are numbered.        *)
(***************************************************************************)
EXTENDS Mesh

VertsOf(el, S) == UNION {VOf(el, e) : e \in S}

---------------------------------------------------------------------------
\* continuous piecewise linear: one DOF per selected vertex
P1Interior(el, S, v) == VertexNbrs(el, v) \subseteq S /\ v \notin BoundaryVerts(el)
P1DofVerts(el, S, ibd) == {v \in VertsOf(el, S) : ibd \/ P1Interior(el, S, v)}
\* slots <<element, local index>> on which the hat function of v lives
P1Assoc(el, S, ibd, trunc, v) ==
    {s \in EIdx(el) \X (1..3) : el[s[1]][s[2]] = v /\ (s[1] \in S \/ (ibd /\ ~trunc))}
P1Support(el, S, ibd, trunc) ==
    {e \in EIdx(el) : \E v \in P1DofVerts(el, S, ibd), i \in 1..3 : <<e, i>> \in P1Assoc(el, S, ibd, trunc, v)}

---------------------------------------------------------------------------
\* RWG / SNC: one DOF per selected edge
NSup(el, S, ed) == Cardinality(EdgeNbrs(el, ed) \cap S)
RWGDofEdges(el, S, ibd) == {ed \in Edges(el) : NSup(el, S, ed) = 2 \/ (ibd /\ NSup(el, S, ed) = 1)}
RWGSupport(el, S, ibd, trunc) ==
    {e \in S : \E k \in 1..3 : EdgeOf(el, e, k) \in RWGDofEdges(el, S, ibd)}
      \cup (IF ibd /\ ~trunc THEN UNION {EdgeNbrs(el, ed) : ed \in RWGDofEdges(el, S, ibd)} ELSE {})
RWGAssoc(el, S, ibd, trunc, ed) ==
    {s \in RWGSupport(el, S, ibd, trunc) \X (1..3) : EdgeOf(el, s[1], s[2]) = ed}

---------------------------------------------------------------------------
\* element-wise spaces
DP0Dofs(S) == S
DP1Dofs(S) == S \X (1..3)

---------------------------------------------------------------------------
\* A dof map: l2g[e] = <<d1,d2,d3>> (or <<d>>), mult[e] likewise in {-1,0,1}; sup = support.
Slots(l2g, e) == {l2g[e][i] : i \in 1..Len(l2g[e])}
RealSlots(l2g, mult, e) == {l2g[e][i] : i \in {j \in 1..Len(l2g[e]) : mult[e][j] # 0}}

\* every zero-multiplier slot points at a DOF that is real in the same element
ArtificialAliasOwn(l2g, mult, sup) ==
    \A e \in sup : Slots(l2g, e) \subseteq RealSlots(l2g, mult, e)

\* colours: function on sup.  Two support elements writing to a common global DOF
\* (zero-multiplier slots write too: "+= 0*x" is a read-modify-write) differ in colour.
ValidColouring(l2g, sup, col) ==
    \A e \in sup, f \in sup : (e # f /\ Slots(l2g, e) \cap Slots(l2g, f) # {}) => col[e] # col[f]

=============================================================================

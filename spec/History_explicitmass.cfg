SPECIFICATION Spec
CONSTANTS
  Slots = {1, 2}
  Kinds = {"slp", "hyp", "idt", "pot", "fmm"}
  RegVals = {1, 4}
  SingVals = {3, 4}
  MassCacheKeyed = TRUE
  MassHonoursExplicit = FALSE
  FmmCacheKeyed = TRUE
  MaxDepth = 7
  EmitJson = FALSE
INVARIANT TypeOK
PROPERTY SameObject
PROPERTY ExplicitHonoured
PROPERTY NoInterference
VIEW View
CHECK_DEADLOCK FALSE

------------------------------- MODULE Octree -------------------------------
(* The octree of bempp_cl/api/utils/octree.py (public as bempp_cl.api.utils.Octree): an extension of the            *)
(* specification beyond the listed properties (DESIGN 10).                                                           *)
(*                                                                                                                   *)
(* Requirement part: Morton indices are the bit interleaving of the three lattice indices; the tree of a vertex      *)
(* set consists of the non-empty leaves, their ancestors per level and, for every non-empty node, the 27 slots of    *)
(* its near field.  Algorithm part: the mask-and-shift arithmetic of _dilate / _contract transcribed with the        *)
(* Bitwise module, checked against the requirement for every 10-bit number (the documented range).                   *)
EXTENDS Integers, Sequences, FiniteSets, TLC, Json, Bitwise, SequencesExt

CONSTANTS Levels,        \* set of maximum levels explored
          Lattice,       \* coordinates (in eighths of the box) a vertex may take per dimension, subset of 0..8
          MaxVertices,   \* vertex sets of 1..MaxVertices points
          EmitJson

\* ---- requirement: Morton order -------------------------------------------------------------------------------
Bit(n, b) == (n \div (2 ^ b)) % 2
RECURSIVE MortonR(_, _, _, _)
MortonR(i, j, k, b) == IF b < 0 THEN 0 ELSE (Bit(i, b) + 2 * Bit(j, b) + 4 * Bit(k, b)) * (8 ^ b) + MortonR(i, j, k, b - 1)
Morton(i, j, k) == MortonR(i, j, k, 9)
RECURSIVE Gather(_, _, _)
Gather(m, off, b) == IF b < 0 THEN 0 ELSE Bit(m, 3 * b + off) * (2 ^ b) + Gather(m, off, b - 1)
DeMorton(m) == <<Gather(m, 0, 9), Gather(m, 1, 9), Gather(m, 2, 9)>>
Side(l) == 2 ^ l
InRange(i, j, k, l) == i >= 0 /\ i < Side(l) /\ j >= 0 /\ j < Side(l) /\ k >= 0 /\ k < Side(l)
Parent(m) == m \div 8
Children(m) == {8 * m + c : c \in 0..7}
RECURSIVE Ancestor(_, _)
Ancestor(m, up) == IF up = 0 THEN m ELSE Ancestor(Parent(m), up - 1)
NeighboursOf(m, l) == LET d == DeMorton(m) IN
    {Morton(d[1] + a, d[2] + b, d[3] + c) : <<a, b, c>> \in {t \in (-1..1) \X (-1..1) \X (-1..1) : t # <<0, 0, 0>> /\ InRange(d[1] + t[1], d[2] + t[2], d[3] + t[3], l)}}

\* ---- algorithm: _dilate / _contract as written (hex masks as decimals) ------------------------------------------
M1 == 50331903   \* 0x030000FF
M2 == 50393103   \* 0x0300F00F
M3 == 51130563   \* 0x030C30C3
M4 == 153391689  \* 0x09249249
M5 == 1023       \* 0x000003FF
\* left shift modulo 2^31 (TLC integers are 32-bit; every mask is below 2^28, so the dropped bits never survive the mask)
ShiftL(x, s) == (x % (2 ^ (31 - s))) * (2 ^ s)
Dilate(n) == LET a == (n | ShiftL(n, 16)) & M1
                 b == (a | ShiftL(a, 8)) & M2
                 c == (b | ShiftL(b, 4)) & M3
             IN (c | ShiftL(c, 2)) & M4
Contract(n) == LET a == n & M4
                   b == (a | shiftR(a, 2)) & M3
                   c == (b | shiftR(b, 4)) & M2
                   d == (c | shiftR(c, 8)) & M1
               IN (d | shiftR(d, 16)) & M5
MortonAlgo(i, j, k) == Dilate(i) | (Dilate(j) * 2) | (Dilate(k) * 4)
DeMortonAlgo(m) == <<Contract(m), Contract(shiftR(m, 1)), Contract(shiftR(m, 2))>>

\* ---- the tree of a vertex set ---------------------------------------------------------------------------------
\* a vertex is a triple of lattice coordinates in eighths of the box; the leaf index is floor(x * side / 8) clipped
LeafIdx(x, l) == LET q == (x * Side(l)) \div 8 IN IF q > Side(l) - 1 THEN Side(l) - 1 ELSE q
LeafOf(v, l) == Morton(LeafIdx(v[1], l), LeafIdx(v[2], l), LeafIdx(v[3], l))
Leaves(vs, l) == {LeafOf(v, l) : v \in vs}
NodesAt(vs, l, lev) == {Ancestor(m, l - lev) : m \in Leaves(vs, l)}
SortedSeq(S) == SetToSortSeq(S, LAMBDA a, b : a < b)
\* the 27 slots of the near field of node m at level lev, in the loop order i, j, k of the implementation
NearField(vs, l, lev, m) == LET d == DeMorton(m) IN
    [s \in 1..27 |-> LET a == ((s - 1) \div 9) - 1
                         b == (((s - 1) \div 3) % 3) - 1
                         c == ((s - 1) % 3) - 1
                     IN IF InRange(d[1] + a, d[2] + b, d[3] + c, lev) /\ Morton(d[1] + a, d[2] + b, d[3] + c) \in NodesAt(vs, l, lev)
                        THEN Morton(d[1] + a, d[2] + b, d[3] + c) ELSE -1]

Points == Lattice \X Lattice \X Lattice
VARIABLES level, verts, phase
vars == <<level, verts, phase>>
Init == level \in Levels /\ verts = {} /\ phase = "grow"
Grow == /\ phase = "grow" /\ Cardinality(verts) < MaxVertices
        /\ \E p \in Points \ verts : verts' = verts \cup {p}
        /\ UNCHANGED <<level, phase>>
Done == phase = "grow" /\ verts # {} /\ phase' = "done" /\ UNCHANGED <<level, verts>>
Next == Grow \/ Done
Spec == Init /\ [][Next]_vars

\* ---- invariants ------------------------------------------------------------------------------------------------
\* (checked once, in the initial states) the bit arithmetic of the implementation is the interleaving, on the whole documented range
ArithmeticSound == verts = {} =>
    /\ \A n \in 0..1023 : Dilate(n) = Morton(n, 0, 0) /\ Contract(Dilate(n)) = n
    /\ \A n \in 0..1023 : Contract(Dilate(n) + 2 * Dilate(1023 - n) + 4 * Dilate(n)) = n   \* other coordinates do not leak
MortonBijective == verts = {} => \A l \in Levels :
    /\ {Morton(i, j, k) : <<i, j, k>> \in (0..Side(l) - 1) \X (0..Side(l) - 1) \X (0..Side(l) - 1)} = 0..(8 ^ l - 1)
    /\ \A m \in 0..(8 ^ l - 1) : LET d == DeMorton(m) IN Morton(d[1], d[2], d[3]) = m /\ DeMortonAlgo(m) = d /\ MortonAlgo(d[1], d[2], d[3]) = m
\* parent in Morton order = halving the lattice indices; neighbours are symmetric and at Chebyshev distance one
HierarchySound == verts = {} => \A l \in Levels \ {0} : \A m \in 0..(8 ^ l - 1) :
    LET d == DeMorton(m) IN /\ Parent(m) = Morton(d[1] \div 2, d[2] \div 2, d[3] \div 2)
                            /\ m \in Children(Parent(m))
                            /\ \A x \in NeighboursOf(m, l) : m \in NeighboursOf(x, l) /\ x # m
\* every non-empty node has a non-empty parent, the root is non-empty, near fields contain the node itself and only non-empty nodes
TreeSound == phase = "done" =>
    /\ NodesAt(verts, level, 0) = {0}
    /\ \A lev \in 1..level : \A m \in NodesAt(verts, level, lev) : Parent(m) \in NodesAt(verts, level, lev - 1)
    /\ \A lev \in 0..level : \A m \in NodesAt(verts, level, lev) :
          LET nf == NearField(verts, level, lev, m) IN
             /\ nf[14] = m
             /\ \A s \in 1..27 : nf[s] # -1 => nf[s] \in NodesAt(verts, level, lev) /\ (s = 14 \/ nf[s] \in NeighboursOf(m, lev))
             /\ \A x \in NodesAt(verts, level, lev) \cap NeighboursOf(m, lev) : \E s \in 1..27 : nf[s] = x

Obligation ==
    LET vseq == SortedSeq({v[1] * 100 + v[2] * 10 + v[3] : v \in verts})    \* a canonical order of the vertices (coordinates <= 8)
        vlist == [n \in 1..Len(vseq) |-> <<vseq[n] \div 100, (vseq[n] \div 10) % 10, vseq[n] % 10>>]
    IN [level |-> level, verts |-> vlist,
        leafof |-> [n \in 1..Len(vlist) |-> LeafOf(vlist[n], level)],
        leaves |-> SortedSeq(Leaves(verts, level)),
        nodes |-> [lev \in 1..(level + 1) |-> SortedSeq(NodesAt(verts, level, lev - 1))],
        near |-> [lev \in 1..(level + 1) |-> LET ns == SortedSeq(NodesAt(verts, level, lev - 1)) IN [p \in 1..Len(ns) |-> NearField(verts, level, lev - 1, ns[p])]],
        neigh |-> LET ls == SortedSeq(Leaves(verts, level)) IN [p \in 1..Len(ls) |-> SortedSeq(NeighboursOf(ls[p], level))]]
Emit == (phase = "done" /\ EmitJson) => PrintT("OBL " \o ToJson(Obligation))
=============================================================================

SPECIFICATION Spec
INVARIANT MemSound
INVARIANT Report
CHECK_DEADLOCK FALSE

------------------------------- MODULE Mesh -------------------------------
(***************************************************************************)
(* Requirement module for triangulated surfaces (property C11, used by     *)
(* every other module).  Pure, numbering-free definitions over             *)
(*   el   : sequence of elements, each a triple <<v1,v2,v3>> of vertex ids *)
(*   xyz  : function vertex id -> <<x,y,z>> with small integer coordinates *)
(* Nothing here mentions edge numbers, dof numbers or colours: those are   *)
(* implementation choices and are never used as an oracle.                 *)
(***************************************************************************)
EXTENDS Integers, Sequences, FiniteSets, TLC

\* bempp's _EDGE_LOCAL = [[0,1],[2,0],[1,2]], 1-based here
LocalEdge == <<<<1, 2>>, <<3, 1>>, <<2, 3>>>>

EIdx(el) == 1..Len(el)
VOf(el, e) == {el[e][1], el[e][2], el[e][3]}
VertsUsed(el) == UNION {VOf(el, e) : e \in EIdx(el)}

\* the undirected edge carried by local edge k of element e (a 2-set)
EdgeOf(el, e, k) == {el[e][LocalEdge[k][1]], el[e][LocalEdge[k][2]]}
\* the same edge as it is traversed by e (ordered pair)
DirEdgeOf(el, e, k) == <<el[e][LocalEdge[k][1]], el[e][LocalEdge[k][2]]>>

Edges(el) == {EdgeOf(el, e, k) : e \in EIdx(el), k \in 1..3}
EdgeNbrs(el, ed) == {e \in EIdx(el) : \E k \in 1..3 : EdgeOf(el, e, k) = ed}
EdgeIncidences(el, ed) == Cardinality({<<e, k>> \in EIdx(el) \X (1..3) : EdgeOf(el, e, k) = ed})
VertexNbrs(el, v) == {e \in EIdx(el) : v \in VOf(el, e)}

Shared(el, e, f) == VOf(el, e) \cap VOf(el, f)
NShared(el, e, f) == Cardinality(Shared(el, e, f))

\* matched local index pairs: el[e][i] = el[f][j]
Matches(el, e, f) == {<<i, j>> \in (1..3) \X (1..3) : el[e][i] = el[f][j]}

EdgeAdjPairs(el) == {<<e, f>> \in EIdx(el) \X EIdx(el) : e # f /\ NShared(el, e, f) = 2}
VertexAdjPairs(el) == {<<e, f>> \in EIdx(el) \X EIdx(el) : e # f /\ NShared(el, e, f) = 1}
ElementNbrs(el, e) == {f \in EIdx(el) : NShared(el, e, f) >= 1}

BoundaryEdges(el) == {ed \in Edges(el) : EdgeIncidences(el, ed) = 1}
BoundaryVerts(el) == UNION BoundaryEdges(el)

\* every edge has at most two neighbours
IsManifoldEdge(el) == \A ed \in Edges(el) : EdgeIncidences(el, ed) <= 2
IsClosed(el) == \A ed \in Edges(el) : EdgeIncidences(el, ed) = 2
\* every interior edge is traversed once in each direction
IsOriented(el) ==
    \A e \in EIdx(el), k \in 1..3 :
        \A f \in EIdx(el), m \in 1..3 :
            (<<e, k>> # <<f, m>> /\ EdgeOf(el, e, k) = EdgeOf(el, f, m))
                => DirEdgeOf(el, e, k) # DirEdgeOf(el, f, m)
Euler(el) == Cardinality(VertsUsed(el)) - Cardinality(Edges(el)) + Len(el)

---------------------------------------------------------------------------
\* integer geometry
VSub(a, b) == <<a[1] - b[1], a[2] - b[2], a[3] - b[3]>>
VAdd(a, b) == <<a[1] + b[1], a[2] + b[2], a[3] + b[3]>>
VScale(s, a) == <<s * a[1], s * a[2], s * a[3]>>
VDot(a, b) == a[1] * b[1] + a[2] * b[2] + a[3] * b[3]
VCross(a, b) == <<a[2] * b[3] - a[3] * b[2], a[3] * b[1] - a[1] * b[3], a[1] * b[2] - a[2] * b[1]>>

P(el, xyz, e, i) == xyz[el[e][i]]
Cross(el, xyz, e) == VCross(VSub(P(el, xyz, e, 2), P(el, xyz, e, 1)), VSub(P(el, xyz, e, 3), P(el, xyz, e, 1)))
J2(el, xyz, e) == VDot(Cross(el, xyz, e), Cross(el, xyz, e))
Centroid3(el, xyz, e) == VAdd(VAdd(P(el, xyz, e, 1), P(el, xyz, e, 2)), P(el, xyz, e, 3))
\* squared side lengths |p2-p1|^2, |p3-p1|^2, |p3-p2|^2
Len2(el, xyz, e) ==
    LET a == VSub(P(el, xyz, e, 2), P(el, xyz, e, 1))
        b == VSub(P(el, xyz, e, 3), P(el, xyz, e, 1))
        c == VSub(P(el, xyz, e, 3), P(el, xyz, e, 2))
    IN <<VDot(a, a), VDot(b, b), VDot(c, c)>>
\* circum-diameter squared as a rational <<num, den>>
Diam2(el, xyz, e) == LET l == Len2(el, xyz, e) IN <<l[1] * l[2] * l[3], J2(el, xyz, e)>>

NonDegenerate(el, xyz) == \A e \in EIdx(el) : Cardinality(VOf(el, e)) = 3 /\ J2(el, xyz, e) > 0

---------------------------------------------------------------------------
\* uniform ("red") refinement: children of e as triples of points scaled by 2
RefineChildren(el, xyz, e) ==
    LET p1 == P(el, xyz, e, 1) p2 == P(el, xyz, e, 2) p3 == P(el, xyz, e, 3)
        m12 == VAdd(p1, p2) m23 == VAdd(p2, p3) m31 == VAdd(p3, p1)
    IN {<<VScale(2, p1), m12, m31>>, <<m12, VScale(2, p2), m23>>,
        <<m23, VScale(2, p3), m31>>, <<m12, m23, m31>>}

\* barycentric refinement: children of e as triples of points scaled by 6.
\* role of each corner is kept: "c" corner of the parent, "m" edge midpoint, "b" barycentre
BaryChildren(el, xyz, e) ==
    LET p == [i \in 1..3 |-> VScale(6, P(el, xyz, e, i))]
        b == VScale(2, Centroid3(el, xyz, e))
        m(i, j) == VScale(3, VAdd(P(el, xyz, e, i), P(el, xyz, e, j)))
    IN {<<p[1], m(1, 2), b>>, <<p[2], b, m(1, 2)>>, <<p[2], m(2, 3), b>>,
        <<p[3], b, m(2, 3)>>, <<p[3], m(3, 1), b>>, <<p[1], b, m(3, 1)>>}

\* cyclic normal form of a triangle given by three points (orientation kept)
Less3(a, b) == \/ a[1] < b[1]
               \/ a[1] = b[1] /\ a[2] < b[2]
               \/ a[1] = b[1] /\ a[2] = b[2] /\ a[3] < b[3]
CycNF(t) ==
    LET r1 == t r2 == <<t[2], t[3], t[1]>> r3 == <<t[3], t[1], t[2]>>
    IN IF (r1[1] = r2[1] \/ Less3(r1[1], r2[1])) /\ (r1[1] = r3[1] \/ Less3(r1[1], r3[1])) THEN r1
       ELSE IF (r2[1] = r3[1] \/ Less3(r2[1], r3[1])) THEN r2 ELSE r3

TriCross(t) == VCross(VSub(t[2], t[1]), VSub(t[3], t[1]))

\* facts the refinements must satisfy (checked by TLC for every mesh of the universe)
RefineSound(el, xyz) ==
    \A e \in EIdx(el) :
        /\ Cardinality(RefineChildren(el, xyz, e)) = 4
        /\ \A t \in RefineChildren(el, xyz, e) : TriCross(t) = Cross(el, xyz, e)   \* (2x)^2/4 = 1
BarySound(el, xyz) ==
    \A e \in EIdx(el) :
        /\ Cardinality(BaryChildren(el, xyz, e)) = 6
        /\ \A t \in BaryChildren(el, xyz, e) : TriCross(t) = VScale(6, Cross(el, xyz, e))  \* 36/6 = 6

=============================================================================

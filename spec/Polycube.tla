------------------------------ MODULE Polycube ------------------------------
(***************************************************************************)
(* Universe U2: closed, outward-oriented triangulated surfaces of          *)
(* polycubes (unions of unit cells of a small box).  The boundary faces    *)
(* are the unit squares between a filled and an empty cell, each split     *)
(* into two triangles by a parity-chosen diagonal and oriented outwards by *)
(* construction.  Every triangle has integration element J = 1, so all     *)
(* Galerkin integrals of polynomial kernels are rational (GalerkinExact).  *)
(*                                                                         *)
(* The module proves (TLC, for every generated surface) the premises of    *)
(* C01/C02: closed, oriented, manifold, Euler characteristic               *)
(* 2*(components - genus), and provides Inside(x) for points with          *)
(* half-integer coordinates.                                               *)
(***************************************************************************)
EXTENDS Mesh, SequencesExt, FiniteSetsExt

Axes == 1..3
Unit(ax) == [i \in 1..3 |-> IF i = ax THEN 1 ELSE 0]
NextAx(ax) == (ax % 3) + 1
Shift(c, ax, s) == [c EXCEPT ![ax] = c[ax] + s]

\* lexicographic order on integer triples
Lt3(a, b) == Less3(a, b)

\* boundary faces <<cell, axis, sign>>
Faces(cells) == {f \in cells \X Axes \X {-1, 1} : Shift(f[1], f[2], f[3]) \notin cells}
FaceLt(f, g) == \/ Lt3(f[1], g[1])
                \/ f[1] = g[1] /\ f[2] < g[2]
                \/ f[1] = g[1] /\ f[2] = g[2] /\ f[3] < g[3]

\* the four corners a,b,c,d of a face, counter-clockwise seen from outside
Corners(f) ==
    LET c == f[1] ax == f[2] s == f[3]
        u == Unit(NextAx(ax)) v == Unit(NextAx(NextAx(ax)))
        base == IF s = 1 THEN VAdd(c, Unit(ax)) ELSE c
        a == base b == VAdd(base, u) cc == VAdd(VAdd(base, u), v) d == VAdd(base, v)
    IN IF s = 1 THEN <<a, b, cc, d>> ELSE <<a, d, cc, b>>

\* two triangles per face; diag = 0: a-c, 1: b-d; pattern p in {0,1} flips the parity rule
FaceTris(f, p) ==
    LET q == Corners(f)
        par == (q[1][1] + q[1][2] + q[1][3] + p) % 2
    IN IF par = 0 THEN <<<<q[1], q[2], q[3]>>, <<q[1], q[3], q[4]>>>>
       ELSE <<<<q[1], q[2], q[4]>>, <<q[2], q[3], q[4]>>>>

\* the surface as [xyz |-> sequence of points, el |-> sequence of vertex-id triples]
Surface(cells, p) ==
    LET fs == SetToSortSeq(Faces(cells), FaceLt)
        tri(n) == FaceTris(fs[((n - 1) \div 2) + 1], p)[((n - 1) % 2) + 1]
        ntri == 2 * Len(fs)
        pts == UNION {{tri(n)[1], tri(n)[2], tri(n)[3]} : n \in 1..ntri}
        ps == SetToSortSeq(pts, Lt3)
        id(q) == CHOOSE i \in 1..Len(ps) : ps[i] = q
    IN [xyz |-> ps, el |-> [n \in 1..ntri |-> <<id(tri(n)[1]), id(tri(n)[2]), id(tri(n)[3])>>]]

\* face-connected components of a cell set
Adjacent(c, d) == \E ax \in Axes, s \in {-1, 1} : Shift(c, ax, s) = d
RECURSIVE Grow(_, _)
Grow(cells, comp) ==
    LET more == {c \in cells \ comp : \E d \in comp : Adjacent(c, d)}
    IN IF more = {} THEN comp ELSE Grow(cells, comp \cup more)
FaceConnected(cells) == cells # {} /\ Grow(cells, {CHOOSE c \in cells : TRUE}) = cells
RECURSIVE NComponents(_)
NComponents(cells) == IF cells = {} THEN 0
                      ELSE 1 + NComponents(cells \ Grow(cells, {CHOOSE c \in cells : TRUE}))

\* every vertex star is a single fan (no pinch points)
RECURSIVE GrowStar(_, _, _)
GrowStar(el, star, comp) ==
    LET more == {e \in star \ comp : \E f \in comp : NShared(el, e, f) = 2}
    IN IF more = {} THEN comp ELSE GrowStar(el, star, comp \cup more)
VertexManifold(el) ==
    \A v \in VertsUsed(el) :
        LET star == VertexNbrs(el, v) IN GrowStar(el, star, {CHOOSE e \in star : TRUE}) = star

\* point-in-solid for points given with doubled coordinates (2x) all odd: the cell containing x
Inside(cells, x2) == <<(x2[1] - 1) \div 2, (x2[2] - 1) \div 2, (x2[3] - 1) \div 2>> \in cells

GoodSolid(cells, p) ==
    LET s == Surface(cells, p) IN IsClosed(s.el) /\ IsManifoldEdge(s.el) /\ VertexManifold(s.el)

=============================================================================

SPECIFICATION Spec
CONSTANTS
  Levels = {1, 2}
  Lattice = {0, 3, 4, 8}
  MaxVertices = 2
  EmitJson = TRUE
INVARIANT ArithmeticSound
INVARIANT MortonBijective
INVARIANT HierarchySound
INVARIANT TreeSound
INVARIANT Emit
CHECK_DEADLOCK FALSE

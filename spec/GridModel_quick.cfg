SPECIFICATION Spec
CONSTANTS
  Bases = {"OCT", "TET", "STRIP8", "BOW", "FAN3", "DUP", "DISJ", "CUBE12"}
  RotPatterns = {0, 1}
  Flips = {0}
  MaxKeep = 3
  MaxDrop = 1
  EmitJson = TRUE
INVARIANT InputSane
INVARIANT EdgesOnce
INVARIANT ElemEdgesConsistent
INVARIANT EdgeAdjExact
INVARIANT VertexAdjExact
INVARIANT ReqSane
INVARIANT Emit
CHECK_DEADLOCK FALSE

---------------------------- MODULE GalerkinExact ----------------------------
(***************************************************************************)
(* Exact Galerkin integrals of polynomial probe kernels on integer meshes  *)
(* (the E-oracle of DESIGN 2.1/3.5).  For the local P1 basis lambda_1..3   *)
(* of two elements t, s (vertex triples over integer points) this module   *)
(* gives integers N such that                                              *)
(*                                                                         *)
(*    int_t int_s lambda_i(x) lambda_j(y) K(x,y) dy dx                     *)
(*         = scale(K) * N_K(t,i,s,j) / 14400                               *)
(*                                                                         *)
(*    K = 1            ("one")  scale = J_t J_s                            *)
(*    K = |x-y|^2      ("r2")   scale = J_t J_s                            *)
(*    K = (x-y).n_y    ("dl")   scale = J_t         (n_y = Cross_s / J_s)  *)
(*    K = (y-x).n_x    ("adl")  scale = J_s         (n_x = Cross_t / J_t)  *)
(*                                                                         *)
(* with J = |Cross| the integration element.  Piecewise constants are the  *)
(* sum of the three lambda's, so P0 entries are row/column sums.  The      *)
(* hypersingular form with kernel G is (e_i.e_j) * sum_ij N_G / 14400      *)
(* where e_i is the edge opposite to local vertex i (surface curl of       *)
(* lambda_i is -e_i/J).  14400 = 120^2 comes from                          *)
(* int lambda^alpha = J alpha!/(|alpha|+2)!.                               *)
(***************************************************************************)
EXTENDS Mesh

Sum3(f(_)) == f(1) + f(2) + f(3)
Delta(i, k) == IF i = k THEN 1 ELSE 0

\* moments of lambda_i over element e, numerators over 120 (per unit J)
MA(i) == 20                                                        \* int lambda_i        = J * 20/120
MX(el, xyz, e, i) ==                                               \* int lambda_i x      = J * MX/120
    LET comp(c) == LET term(k) == (1 + Delta(i, k)) * P(el, xyz, e, k)[c] IN 5 * Sum3(term)
    IN <<comp(1), comp(2), comp(3)>>
C3(i, k, l) == IF i = k /\ k = l THEN 6 ELSE IF i = k \/ k = l \/ i = l THEN 2 ELSE 1
MQ(el, xyz, e, i) ==                                               \* int lambda_i |x|^2  = J * MQ/120
    LET row(k) == LET term(l) == C3(i, k, l) * VDot(P(el, xyz, e, k), P(el, xyz, e, l)) IN Sum3(term)
    IN Sum3(row)

\* pair numerators over 14400
NOne(i, j) == MA(i) * MA(j)
NR2(el, xyz, t, i, s, j) ==
    MQ(el, xyz, t, i) * MA(j) - 2 * VDot(MX(el, xyz, t, i), MX(el, xyz, s, j)) + MA(i) * MQ(el, xyz, s, j)
NDl(el, xyz, t, i, s, j) ==
    LET n == Cross(el, xyz, s)
    IN VDot(MX(el, xyz, t, i), n) * MA(j) - MA(i) * VDot(MX(el, xyz, s, j), n)
NAdl(el, xyz, t, i, s, j) ==
    LET n == Cross(el, xyz, t)
    IN MA(i) * VDot(MX(el, xyz, s, j), n) - VDot(MX(el, xyz, t, i), n) * MA(j)

\* 3x3 blocks as sequences of rows
Block(f(_, _)) == <<<<f(1, 1), f(1, 2), f(1, 3)>>, <<f(2, 1), f(2, 2), f(2, 3)>>, <<f(3, 1), f(3, 2), f(3, 3)>>>>
BlockSum(b) == b[1][1] + b[1][2] + b[1][3] + b[2][1] + b[2][2] + b[2][3] + b[3][1] + b[3][2] + b[3][3]

\* edge opposite to local vertex i (i in 1..3, cyclic: e_i = p_{i+2} - p_{i+1})
EdgeOpp(el, xyz, e, i) == VSub(P(el, xyz, e, ((i + 1) % 3) + 1), P(el, xyz, e, (i % 3) + 1))
EdgeDots(el, xyz, t, s) ==
    LET f(i, j) == VDot(EdgeOpp(el, xyz, t, i), EdgeOpp(el, xyz, s, j)) IN Block(f)

\* potentials at an integer point x (scaled: 2x given as x2 with odd entries allowed):
\*   int_s lambda_j(y) K(x2/2, y) dy, numerators over 480 = 4*120 for r2, over 240 for dl
PotR2(el, xyz, s, j, x2) ==       \* 4|x|^2 a_j - 4 x2.X_j + 4 Q_j   (J_s * . / 480)
    VDot(x2, x2) * MA(j) - 2 * VDot(x2, MX(el, xyz, s, j)) * 1 + 4 * MQ(el, xyz, s, j) - 2 * VDot(x2, MX(el, xyz, s, j))
PotDl(el, xyz, s, j, x2) ==       \* (x2.n) a_j - 2 X_j.n            (. / 240, n = Cross_s)
    LET n == Cross(el, xyz, s) IN VDot(x2, n) * MA(j) - 2 * VDot(MX(el, xyz, s, j), n)
PotOne(j) == MA(j)                \* J_s * . / 120

\* range guard: every intermediate stays far below 2^31 for |coordinate| <= 8
CoordsSmall(xyz) == \A v \in DOMAIN xyz : \A c \in 1..3 : xyz[v][c] \in -8..8

=============================================================================

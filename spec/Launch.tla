------------------------------- MODULE Launch -------------------------------
(***************************************************************************)
(* C16.  One parallel kernel launch = a set of prange iterations, each a   *)
(* sequence of unsynchronised accesses <<op, cell>> (op "r" or "w") to     *)
(* shared memory.  `result[i, j] += v` is a read followed by a write.      *)
(* The footprints are recorded from the shipped kernel source              *)
(* (harness/record_footprint.py); TLC explores EVERY interleaving of the   *)
(* iterations of a launch.                                                 *)
(*                                                                         *)
(* Memory is modelled symbolically: the value of a cell is the set of      *)
(* iterations whose update it contains.  A write stores what the iteration *)
(* last read from the cell plus itself (a blind write stores only itself), *)
(* so an update of another iteration that happened between the read and    *)
(* the write is lost - exactly the failure of `+=` without atomics.        *)
(*                                                                         *)
(*   NoLostUpdate      in every terminal state every cell contains all its *)
(*                     writers, whatever the schedule                      *)
(*   BernsteinPerLaunch  no cell written by one iteration is read or       *)
(*                     written by another (static, per launch)             *)
(*   WritesInOwnCells  an iteration writes only to cells it owns (the rows *)
(*                     of its element's global DOFs)                       *)
(***************************************************************************)
EXTENDS Integers, Sequences, FiniteSets, TLC, Json, IOUtils

Launches == JsonDeserialize(IOEnv.TRACE_FILE).launches

VARIABLES lid, pc, mem, reg, verdict
vars == <<lid, pc, mem, reg, verdict>>

L == Launches[lid]
Threads == 1..Len(L.threads)
Acc(t, k) == L.threads[t][k]            \* <<op, cell>>
Cells == UNION {{Acc(t, k)[2] : k \in 1..Len(L.threads[t])} : t \in Threads}
Reads(t) == {Acc(t, k)[2] : k \in {j \in 1..Len(L.threads[t]) : Acc(t, j)[1] = "r"}}
Writes(t) == {Acc(t, k)[2] : k \in {j \in 1..Len(L.threads[t]) : Acc(t, j)[1] = "w"}}
Writers(c) == {t \in Threads : c \in Writes(t)}
Own(t) == {L.own[t][k] : k \in 1..Len(L.own[t])}

BernsteinPerLaunch ==
    \A t \in Threads, u \in Threads : t # u => Writes(t) \cap (Reads(u) \cup Writes(u)) = {}
WritesInOwnCells == \A t \in Threads : Writes(t) \subseteq Own(t)

Init ==
    /\ lid \in 1..Len(Launches)
    /\ pc = [t \in 1..Len(Launches[lid].threads) |-> 1]
    /\ mem = [c \in UNION {{Launches[lid].threads[t][k][2] : k \in 1..Len(Launches[lid].threads[t])}
                             : t \in 1..Len(Launches[lid].threads)} |-> {}]
    /\ reg = [t \in 1..Len(Launches[lid].threads) |-> <<>>]    \* cell -> snapshot, as a set of pairs
    /\ verdict = "running"

Snapshot(t, c) == IF \E p \in DOMAIN reg[t] : reg[t][p][1] = c
                  THEN (CHOOSE p \in DOMAIN reg[t] : reg[t][p][1] = c)
                  ELSE 0
Step(t) ==
    /\ verdict = "running" /\ pc[t] <= Len(L.threads[t])
    /\ LET op == Acc(t, pc[t])[1]
           c == Acc(t, pc[t])[2]
           p == Snapshot(t, c)
       IN IF op = "r"
          THEN /\ reg' = [reg EXCEPT ![t] = IF p = 0 THEN Append(reg[t], <<c, mem[c]>>)
                                            ELSE [reg[t] EXCEPT ![p] = <<c, mem[c]>>]]
               /\ UNCHANGED mem
          ELSE /\ mem' = [mem EXCEPT ![c] = (IF p = 0 THEN {} ELSE reg[t][p][2]) \cup {t}]
               \* forget the snapshot so that schedules that differ only in dead registers coincide
               /\ reg' = [reg EXCEPT ![t] = IF p = 0 THEN reg[t]
                                            ELSE [q \in 1..(Len(reg[t]) - 1) |-> IF q < p THEN reg[t][q] ELSE reg[t][q + 1]]]
    /\ pc' = [pc EXCEPT ![t] = pc[t] + 1]
    /\ UNCHANGED <<lid, verdict>>

AllDone == \A t \in Threads : pc[t] = Len(L.threads[t]) + 1
Finish ==
    /\ verdict = "running" /\ AllDone
    /\ verdict' = IF ~WritesInOwnCells THEN "WritesInOwnCells"
                  ELSE IF \E c \in Cells : mem[c] # Writers(c) THEN "NoLostUpdate"
                  ELSE IF ~BernsteinPerLaunch \/ L.nshared > 0 THEN "BernsteinPerLaunch"
                  ELSE "accept"
    /\ UNCHANGED <<lid, pc, mem, reg>>

Next == (\E t \in Threads : Step(t)) \/ Finish
Spec == Init /\ [][Next]_vars

\* a cell never contains an iteration that does not write it
MemSound == \A c \in DOMAIN mem : mem[c] \subseteq Writers(c)

Report == verdict # "running" => PrintT("TRC " \o ToJson([id |-> L.id, verdict |-> verdict]))

=============================================================================

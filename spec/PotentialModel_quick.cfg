SPECIFICATION Spec
CONSTANTS
  Solids <- SolidsQuick
  Reach = 3
  EmitJson = TRUE
INVARIANT PointOffSurface
INVARIANT Emit
CHECK_DEADLOCK FALSE

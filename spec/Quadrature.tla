----------------------------- MODULE Quadrature -----------------------------
(***************************************************************************)
(* C12.  Requirement: exact moments of the reference domains and the       *)
(* advertised degree of exactness of every rule family; algorithm side:    *)
(* the address arithmetic by which triangle_gauss.rule / gauss.rule slice  *)
(* their concatenated tables.                                              *)
(*                                                                         *)
(*   int_T x^a y^b            = 1 / ((a+b+2)(a+b+1) C(a+b,a))   T = ref. triangle *)
(*   int_0^1 x^m              = 1 / (m+1)                                   *)
(*   triangle rule of order n : exact for a+b <= n            (n = 1..20)  *)
(*   Gauss rule with n points : exact for m <= 2n-1           (n = 1..30)  *)
(*   Duffy rules of order n   : exact for a+b+c+d <= 2n-4 on T x T (n>=2), *)
(*                              6 n^4 / 5 n^4 / 2 n^4 points               *)
(*                                                                         *)
(* The state space is the finite obligation space itself: one state per    *)
(* (family, order, total degree); TLC walks all of it and emits each state *)
(* with its monomials and exact moments as rationals <<1, den>>.           *)
(***************************************************************************)
EXTENDS Integers, Sequences, FiniteSets, TLC, Json

CONSTANTS MaxDuffyOrder, EmitJson

RECURSIVE Binom(_, _)
Binom(n, k) == IF k = 0 THEN 1 ELSE (Binom(n, k - 1) * (n - k + 1)) \div k

\* denominators of the exact moments (numerators are 1)
TriDen(a, b) == (a + b + 2) * (a + b + 1) * Binom(a + b, a)
LineDen(m) == m + 1

Families == {"triangle", "gauss", "coincident", "edge_adjacent", "vertex_adjacent"}
Orders(f) == IF f = "triangle" THEN 1..20 ELSE IF f = "gauss" THEN 1..30 ELSE 2..MaxDuffyOrder
MaxDegree(f, n) == IF f = "triangle" THEN n ELSE IF f = "gauss" THEN 2 * n - 1 ELSE 2 * n - 4
NPointsAdvertised(f, n) ==
    IF f = "gauss" THEN n
    ELSE IF f = "coincident" THEN 6 * n * n * n * n
    ELSE IF f = "edge_adjacent" THEN 5 * n * n * n * n
    ELSE IF f = "vertex_adjacent" THEN 2 * n * n * n * n
    ELSE 0   \* triangle rules: number of points is a table property, see PointsPerOrder

\* monomials of exact total degree d
Mono(f, d) ==
    IF f = "gauss" THEN {<<d>>}
    ELSE IF f = "triangle" THEN {<<a, d - a>> : a \in 0..d}
    ELSE {}
MonoDuffy(d) == {m \in (0..d) \X (0..d) \X (0..d) \X (0..d) : m[1] + m[2] + m[3] + m[4] = d}
Monomials(f, d) == IF f \in {"gauss", "triangle"} THEN Mono(f, d) ELSE MonoDuffy(d)

\* exact moment of a monomial as a sequence of denominators whose reciprocals are multiplied
Dens(f, m) == IF f = "gauss" THEN <<LineDen(m[1])>>
              ELSE IF f = "triangle" THEN <<TriDen(m[1], m[2])>>
              ELSE <<TriDen(m[1], m[2]), TriDen(m[3], m[4])>>

VARIABLES fam, n, deg
vars == <<fam, n, deg>>

Init == fam \in Families /\ n \in Orders(fam) /\ deg = 0
Next == deg < MaxDegree(fam, n) /\ deg' = deg + 1 /\ UNCHANGED <<fam, n>>
Spec == Init /\ [][Next]_vars

---------------------------------------------------------------------------
\* table layout, transcribed from gauss.py:1051 and triangle_gauss.py:41-173 (0-based addresses)
LineAddress(k) == (k * (k - 1)) \div 2
LineLayoutOK ==   \* the 30 slices tile [0, 465) without gap or overlap
    /\ LineAddress(1) = 0
    /\ \A k \in 1..29 : LineAddress(k) + k = LineAddress(k + 1)
    /\ LineAddress(30) + 30 = 465

PointsPerOrder == <<1, 3, 4, 6, 7, 12, 13, 16, 19, 25, 27, 33, 37, 42, 48, 52, 61, 70, 73, 79>>
\* address of the rule with k points, only for the k that occur; -1 = rule does not exist
PointsAddress(k) ==
    CASE k = 1 -> 0 [] k = 3 -> 1 [] k = 4 -> 4 [] k = 6 -> 8 [] k = 7 -> 14 [] k = 12 -> 30 [] k = 13 -> 42
      [] k = 16 -> 70 [] k = 19 -> 86 [] k = 25 -> 126 [] k = 27 -> 151 [] k = 33 -> 178 [] k = 37 -> 211
      [] k = 42 -> 248 [] k = 48 -> 290 [] k = 52 -> 338 [] k = 61 -> 390 [] k = 70 -> 451 [] k = 73 -> 521
      [] k = 79 -> 594 [] OTHER -> -1
TriangleLayoutOK ==
    /\ \A o \in 1..20 : PointsAddress(PointsPerOrder[o]) >= 0
    /\ \A o \in 1..20 : PointsAddress(PointsPerOrder[o]) + PointsPerOrder[o] <= 673
    /\ \A o \in 1..19 : PointsPerOrder[o] < PointsPerOrder[o + 1]
    /\ \A o \in 1..20, q \in 1..20 :
          o < q => PointsAddress(PointsPerOrder[o]) + PointsPerOrder[o] <= PointsAddress(PointsPerOrder[q])
LayoutOK == LineLayoutOK /\ TriangleLayoutOK

\* moments are positive and the degree-0 moments are the measures 1/2, 1, 1/4
MomentsSane ==
    /\ \A m \in Monomials(fam, deg) : \A i \in 1..Len(Dens(fam, m)) : Dens(fam, m)[i] > 0
    /\ deg = 0 => (\A m \in Monomials(fam, 0) :
                     Dens(fam, m) = IF fam = "gauss" THEN <<1>> ELSE IF fam = "triangle" THEN <<2>> ELSE <<2, 2>>)
    /\ Cardinality(Monomials(fam, deg)) =
          (IF fam = "gauss" THEN 1 ELSE IF fam = "triangle" THEN deg + 1 ELSE Binom(deg + 3, 3))

Obligation ==
    [ fam |-> fam, n |-> n, deg |-> deg, maxdeg |-> MaxDegree(fam, n), npoints |-> NPointsAdvertised(fam, n),
      mono |-> {<<m, Dens(fam, m)>> : m \in Monomials(fam, deg)} ]
Emit == EmitJson => PrintT("OBL " \o ToJson(Obligation))

=============================================================================

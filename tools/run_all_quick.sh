#!/bin/sh
# Runs every quick check of MANIFEST.json in /verif against /repo (writes /verif/evidence/<id>.json) and prints one line per check.
cd /verif
mkdir -p /tmp/allquick
for c in ${@:-c01 c02 c03 c04 c05 c06 c07 c08 c09 c10 c11 c12 c13 c14 c15 c16 c17 c18 c19}; do
  START=$(date +%s)
  /venv/bin/python checks/$c.py --tier quick > /tmp/allquick/$c.log 2>&1
  RC=$?
  echo "$c exit=$RC wall=$(( $(date +%s) - START )) $(grep -E '^(OK|VIOLATION|KNOWN-FINDING|MACHINERY)' /tmp/allquick/$c.log | head -3 | cut -c1-110 | tr '\n' '|')"
done

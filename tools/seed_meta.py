"""Writes seeded/<id>/meta.json from the sub-agent's report (meta.agent.json), my own confirmation (confirm.json, written
by tools/confirm_seed.sh in a scratch worktree) and the detection table (seeded/DETECTION.json)."""
import json
import os

S = "/verif/seeded"
det = json.load(open(os.path.join(S, "DETECTION.json")))
for sid in sorted(os.listdir(S)):
    d = os.path.join(S, sid)
    if not os.path.isdir(d):
        continue
    agent = json.load(open(os.path.join(d, "meta.agent.json"))) if os.path.exists(os.path.join(d, "meta.agent.json")) else {}
    conf = json.load(open(os.path.join(d, "confirm.json"))) if os.path.exists(os.path.join(d, "confirm.json")) else None
    dt = det.get(sid, {})
    meta = {
        "id": sid,
        "property": dt.get("property") or agent.get("property"),
        "breaks": agent.get("summary"),
        "needs": agent.get("needs"),
        "files": agent.get("files"),
        "origin": "written by a fresh sub-agent that saw only the property text and its own scratch worktree of /repo",
        "confirmed_by_me": None if conf is None else {
            "how": "tools/confirm_seed.sh in a scratch git worktree of /repo: demo.py on the clean tree, demo.py with patch.diff applied, the 53 pinned tests with patch.diff applied",
            "demo_exit_clean": conf["demo_exit_clean"], "demo_exit_patched": conf["demo_exit_patched"],
            "pinned_tests_exit_patched": conf["pinned_tests_exit_patched"], "pinned_tests_summary": conf["pinned_tests_summary"].strip("= "),
        },
        "checks_run_against_it": "tools/mutant.sh seeded/%s/patch.diff checks/<check>.py quick (scratch copy of /repo with the patch, VERIF_REPO pointing at it; /repo itself untouched)" % sid,
        "detected_by": dt.get("detected_by", {}),
    }
    if dt.get("not_detected_by"):
        meta["not_detected_by"] = dt["not_detected_by"]
    if conf is None:
        meta["status"] = "imported, my own confirmation still running / not done"
    elif conf["demo_exit_clean"] == 0 and conf["demo_exit_patched"] != 0 and conf["pinned_tests_exit_patched"] == 0:
        meta["status"] = "confirmed: demo passes clean, fails patched, pinned tests pass patched"
    elif conf["demo_exit_clean"] == 0 and conf["demo_exit_patched"] != 0 and conf["pinned_tests_exit_patched"] == -1:
        meta["status"] = ("demo confirmed by me (passes clean, fails patched); the pinned tests with the patch were run by the sub-agent only "
                          "(pytest_patched.log, 53 passed) - my own run did not fit into the remaining time")
    else:
        meta["status"] = "NOT confirmed as a valid seed: %s" % conf
    json.dump(meta, open(os.path.join(d, "meta.json"), "w"), indent=1)
    print(sid, "|", meta["status"][:40], "|", "detected" if meta["detected_by"] else "NOT DETECTED")

#!/bin/sh
# usage: tools/mkmutant.sh <name> <file relative to repo> <python-expr old> <new>   (exact string replace, once)
set -e
NAME=$1; FILE=$2; OLD=$3; NEW=$4
D=$(mktemp -d /tmp/mk_XXXXXX); trap 'rm -rf "$D"' EXIT
mkdir -p "$D/a/$(dirname $FILE)" "$D/b/$(dirname $FILE)"
cp /repo/$FILE "$D/a/$FILE"; cp /repo/$FILE "$D/b/$FILE"
OLD="$OLD" NEW="$NEW" NTH="${NTH:-0}" /venv/bin/python - "$D/b/$FILE" <<'PY'
import os,sys
p=sys.argv[1]; s=open(p).read(); old=os.environ['OLD']; new=os.environ['NEW']
n=int(os.environ.get('NTH','0'))
if n==0:
    assert s.count(old)==1, "pattern occurs %d times" % s.count(old)
    s=s.replace(old,new)
else:
    parts=s.split(old); assert len(parts)>n, "only %d occurrences" % (len(parts)-1)
    s=old.join(parts[:n])+new+old.join(parts[n:])
open(p,'w').write(s)
PY
(cd "$D" && diff -u a/$FILE b/$FILE > /verif/selftest/mutants/$NAME.diff || true)
echo "wrote selftest/mutants/$NAME.diff ($(wc -l < /verif/selftest/mutants/$NAME.diff) lines)"

"""Runs the 53 pinned tests of /root/.vp/BASELINE.json against a tree (default /repo, or argv[1]) as one pytest
process per test module, all at once, and prints one line per module plus a total.  Same tests as tools/baseline.py;
only the scheduling differs (the serial run needs about 40 min, most of it JIT compilation repeated per module anyway).
usage: pinned_parallel.py [tree] [threads per process]"""
import collections, json, os, subprocess, sys, time

tree = sys.argv[1] if len(sys.argv) > 1 else os.environ.get("VERIF_REPO", "/repo")
threads = sys.argv[2] if len(sys.argv) > 2 else "2"
b = json.load(open("/root/.vp/BASELINE.json"))
groups = collections.OrderedDict()
for t in b["stable_pass"]:
    mod, name = t.split("::", 1)
    groups.setdefault(mod, []).append(mod.replace(".", "/") + ".py::" + name)
env = dict(os.environ)
env.pop("BEMPP_CL_VERIF", None)
env["NUMBA_NUM_THREADS"] = threads
env["PYTHONPATH"] = tree
t0 = time.time()
procs = {}
for mod, ids in groups.items():
    procs[mod] = (len(ids), subprocess.Popen(["/venv/bin/python", "-m", "pytest", "-q", "-p", "no:cacheprovider", "--timeout=3000"] + ids,
                                              cwd=tree, env=env, stdout=subprocess.PIPE, stderr=subprocess.STDOUT))
passed = 0
bad = 0
for mod, (n, p) in procs.items():
    out = p.communicate()[0].decode()
    last = out.strip().splitlines()[-1] if out.strip() else ""
    ok = p.returncode == 0 and ("%d passed" % n) in last
    passed += n if ok else 0
    bad += 0 if ok else 1
    print("%-70s rc=%d %s" % (mod, p.returncode, last.strip("= ")))
    if not ok:
        print("\n".join(out.splitlines()[-25:]))
print("TOTAL %d of %d pinned tests passed, %d modules not clean, wall %.0f s, tree %s" % (passed, len(b["stable_pass"]), bad, time.time() - t0, tree))
sys.exit(0 if bad == 0 and passed == len(b["stable_pass"]) else 1)

#!/bin/sh
# usage: tools/mutant.sh <patch.diff> <check.py> [tier]
# Applies the patch to a scratch copy of /repo (never to /repo itself), runs the
# check against it with evidence diverted, prints the verdict, removes the copy.
set -e
PATCH=$(readlink -f "$1"); CHECK=$(readlink -f "$2"); TIER=${3:-quick}
D=$(mktemp -d /tmp/mut_XXXXXX)
trap 'rm -rf "$D"' EXIT
mkdir -p "$D/repo" "$D/ev"
cp -r /repo/bempp_cl /repo/test "$D/repo/" 2>/dev/null
cp /repo/VERSION /repo/pyproject.toml "$D/repo/" 2>/dev/null || true
(cd "$D/repo" && patch -p1 -s < "$PATCH")
set +e
VERIF_REPO="$D/repo" VERIF_EVIDENCE_DIR="$D/ev" /venv/bin/python "$CHECK" --tier "$TIER" > "$D/out.txt" 2>&1
RC=$?
grep -E "^(VIOLATION|KNOWN-FINDING|OK|MACHINERY)" "$D/out.txt" | head -8
grep -A1 "^VIOLATION" "$D/out.txt" | grep "key=" | head -5
echo "exit=$RC"
[ $RC -eq 2 ] && tail -20 "$D/out.txt"
exit 0

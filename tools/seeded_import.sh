#!/bin/sh
# usage: tools/seeded_import.sh <worktree> <SEEDn> <id>   -> copies a sub-agent's seed into /verif/seeded/<id>/
set -e
WT=$1; S=$2; ID=$3
mkdir -p /verif/seeded/$ID
cp $WT/$S/patch.diff $WT/$S/demo.py /verif/seeded/$ID/
cp $WT/$S/meta.json /verif/seeded/$ID/meta.agent.json
echo "imported $ID"

#!/bin/sh
# usage: tools/confirm_seed.sh <seed id> <worktree>  -- confirms a seeded change in a scratch worktree of /repo:
# demo passes on the clean tree, fails with the patch, pinned tests pass with the patch. Writes seeded/<id>/confirm.json
ID=$1; WT=$2; S=/verif/seeded/$ID
cd $WT && git checkout -q -- bempp_cl && git clean -fdq bempp_cl
PYTHONPATH=$WT /venv/bin/python $S/demo.py > $S/demo_clean.log 2>&1; RC_CLEAN=$?
git apply $S/patch.diff || { echo "patch does not apply"; exit 2; }
PYTHONPATH=$WT /venv/bin/python $S/demo.py > $S/demo_patched.log 2>&1; RC_PATCHED=$?
if [ "$3" != "nopytest" ]; then
NUMBA_NUM_THREADS=8 /venv/bin/python -m pytest -q -p no:cacheprovider --timeout=2400 $(cat $WT/PINNED_TESTS.txt) > $S/pytest_patched.log 2>&1; RC_TESTS=$?
SUMMARY=$(tail -1 $S/pytest_patched.log)
else RC_TESTS=-1; SUMMARY="not run here (agent reported 53 passed)"; fi
git checkout -q -- bempp_cl
tail -3 $S/demo_patched.log > $S/demo_patched.tail; 
cat > $S/confirm.json <<JSON
{"demo_exit_clean": $RC_CLEAN, "demo_exit_patched": $RC_PATCHED, "pinned_tests_exit_patched": $RC_TESTS, "pinned_tests_summary": "$SUMMARY"}
JSON
rm -f $S/demo_clean.log $S/demo_patched.log
cat $S/confirm.json

"""Runs the 53 pinned tests of /root/.vp/BASELINE.json (guard off) and reports pass/fail counts."""
import json, os, subprocess, sys
b = json.load(open("/root/.vp/BASELINE.json"))
ids = []
for t in b["stable_pass"]:
    mod, name = t.split("::", 1)
    ids.append(mod.replace(".", "/") + ".py::" + name)
env = dict(os.environ); env.pop("BEMPP_CL_VERIF", None)
repo = os.environ.get("VERIF_REPO", "/repo")
p = subprocess.run(["/venv/bin/python", "-m", "pytest", "-q", "-p", "no:cacheprovider", "--timeout=3000", "-x"] + ids, cwd=repo, env=env, stdout=subprocess.PIPE, stderr=subprocess.STDOUT)
out = p.stdout.decode()
print("\n".join(out.splitlines()[-6:]))
sys.exit(p.returncode)

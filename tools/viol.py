import json,glob,collections,sys
pid=sys.argv[1]
d=sys.argv[2] if len(sys.argv)>2 else '/verif/evidence'
c=collections.Counter(); ex={}
for f in sorted(glob.glob(d+'/replay/%s-*.json'%pid)):
    x=json.load(open(f)); c[x['key']]+=1; ex.setdefault(x['key'],x['description'])
for k,v in c.items(): print(v,k,'\n    ',ex[k][:330].replace('\n',' | '))
e=json.load(open(d+'/%s.json'%pid)); print('violations',e['violations'],'wall',e['wall_s'],'evals',e['coverage']['evaluations'])

import json, sys
pid = sys.argv[1]
props = {json.loads(l)['id']: json.loads(l) for l in open('/verif/properties.jsonl')}
p = props[pid]
t = open('/verif/tools/seed_prompt.txt').read()
print(t.format(wt='/tmp/wt_' + pid.lower(), pid=pid, title=p['title'], statement=p['statement'], quant=p['quantifier']['text']))

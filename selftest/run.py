"""Self-test of the bindings: shows that the specifications constrain what is recorded from the code.

For every trace specification a trace recorded from the real library is validated (must be accepted), then corrupted in
ways that correspond to real defects (one field changed, one event dropped, one event duplicated, two events swapped) and
validated again: every corrupted trace must be rejected, and the verdict names the clause.  With --mutants every code
mutant under selftest/mutants (patches applied to a scratch copy of /repo) is run against the check named by its file name
and must produce a violation.

   /venv/bin/python /verif/selftest/run.py            (about 5 minutes)
   /venv/bin/python /verif/selftest/run.py --mutants  (hours: one quick check per mutant)

Exit 0 when every control behaved as required, 1 otherwise.  Results: /verif/selftest/RESULT.json
"""

import copy
import json
import os
import subprocess
import sys
import tempfile

sys.path.insert(0, os.path.dirname(os.path.dirname(os.path.abspath(__file__))))
from harness import common  # noqa: E402

RESULTS = []


def report(group, name, expect_reject, verdict, ok):
    RESULTS.append({"group": group, "control": name, "expected": "reject" if expect_reject else "accept", "verdict": verdict, "as_required": bool(ok)})
    print("%-14s %-58s expected %-6s got %-60s %s" % (group, name[:58], "reject" if expect_reject else "accept", str(verdict)[:60], "ok" if ok else "FAILED"))


def assembly_trace(api, np):
    from harness import record_launch as rl

    V = np.array([[1, 0, 0], [-1, 0, 0], [0, 2, 0], [0, -2, 0], [0, 0, 3], [0, 0, -3]], dtype=float).T
    E = np.array([[0, 2, 4], [0, 5, 2], [0, 4, 3], [0, 3, 5], [1, 4, 2], [1, 2, 5], [1, 3, 4], [1, 5, 3]]).T
    g = api.Grid(V, E)
    P1, D0 = api.function_space(g, "P", 1), api.function_space(g, "DP", 0)
    rec = rl.LaunchRecorder()
    rec.install()
    try:
        api.operators.boundary.laplace.single_layer(D0, P1, P1).weak_form()
    finally:
        rec.uninstall()
    good = rl.make_trace(1, g, P1, D0, api.GLOBAL_PARAMETERS.quadrature.singular, rec.take())
    traces = [good]
    names = ["recorded plan of laplace.single_layer (DP0 -> P1) on the octahedron"]

    def variant(name, fn):
        t = copy.deepcopy(good)
        fn(t)
        t["id"] = len(traces) + 1
        traces.append(t)
        names.append(name)

    sing = [i for i, e in enumerate(good["events"]) if e["ev"] == "singular"]
    regs = [i for i, e in enumerate(good["events"]) if e["ev"] == "regular"]
    edge = [i for i in sing if good["events"][i]["cls"] == "edge"]
    variant("one singular pair dropped (pair never integrated with its rule)", lambda t: t["events"].pop(sing[3]))
    variant("one singular pair duplicated (pair integrated twice)", lambda t: t["events"].append(copy.deepcopy(t["events"][sing[0]])))
    variant("rule class of an edge-adjacent pair recorded as vertex-adjacent", lambda t: t["events"][edge[0]].update(cls="vert", wcls="vert"))
    variant("shared-edge remap of the trial element points at the wrong local edge", lambda t: t["events"][edge[0]].update(smap=[t["events"][edge[0]]["smap"][0] % 3 + 1, t["events"][edge[0]]["smap"][1] % 3 + 1]))
    variant("weights taken from another rule than the points", lambda t: t["events"][edge[0]].update(wcls="coin"))
    variant("one regular launch dropped (a colour batch never assembled)", lambda t: t["events"].pop(regs[0]))

    def merge(t):
        a, b = t["events"][regs[0]], t["events"][regs[1]]
        a["test"] = a["test"] + b["test"]
        t["events"].pop(regs[1])
    variant("two colour batches merged into one launch (elements sharing a dof run concurrently)", merge)
    res, verdicts = rl.validate(traces)
    for t, name in zip(traces, names):
        v = verdicts.get(t["id"], {}).get("verdict", "no verdict")
        expect_reject = t["id"] != 1
        report("AssemblyTrace", name, expect_reject, v, (v != "accept") == expect_reject and v != "no verdict")


def history_trace(api, np):
    from harness import replay_history as rh

    ref = rh.reference_table(common.REPO)
    hist = [{"call": "create", "slot": 1, "arg": ["slp", "G"]}, {"call": "weak_form", "slot": 1, "arg": []}, {"call": "set_global", "slot": 0, "arg": ["reg", 1]},
            {"call": "weak_form", "slot": 1, "arg": []}, {"call": "create", "slot": 2, "arg": ["slp", "G"]}, {"call": "weak_form", "slot": 2, "arg": []}, {"call": "mass_matrix", "slot": 0, "arg": []},
            {"call": "set_global", "slot": 0, "arg": ["reg", 4]}, {"call": "mass_matrix", "slot": 0, "arg": []}]
    out, notes = rh.record(api, hist, ref)
    good = {"id": 1, "events": out}
    traces, names = [good], ["recorded history: assemble, change the global order, assemble a new operator, mass matrices"]

    def variant(name, fn):
        t = copy.deepcopy(good)
        fn(t)
        t["id"] = len(traces) + 1
        traces.append(t)
        names.append(name)

    variant("second weak_form of the assembled operator observed at the new order (cache ignored / interference)", lambda t: t["events"][3].update(res=t["events"][5]["res"]))
    variant("new operator observed at the old order (later change of the global order ignored)", lambda t: t["events"][5].update(res=t["events"][1]["res"]))
    variant("mass matrix after restoring the order observed at the stale order", lambda t: t["events"][8].update(res=t["events"][6]["res"]))
    res, verdicts = rh.validate(traces)
    for t, name in zip(traces, names):
        v = verdicts.get(t["id"], {}).get("verdict", "no verdict")
        expect_reject = t["id"] != 1
        report("HistoryTrace", name, expect_reject, v, (v != "accept") == expect_reject and v != "no verdict")


def fmm_trace(api, np):
    from harness import fake_exafmm

    cwd = os.getcwd()
    d = tempfile.mkdtemp(prefix="selftest_fmm_")
    os.chdir(d)
    try:
        V = np.array([[1, 0, 0], [-1, 0, 0], [0, 2, 0], [0, -2, 0], [0, 0, 3], [0, 0, -3]], dtype=float).T
        E = np.array([[0, 2, 4], [0, 5, 2], [0, 4, 3], [0, 3, 5], [1, 4, 2], [1, 2, 5], [1, 3, 4], [1, 5, 3]]).T
        g = api.Grid(V, E)
        s = api.function_space(g, "P", 1)
        del fake_exafmm.CALLS[:]
        A = api.operators.boundary.laplace.double_layer(s, s, s, assembler="fmm").weak_form()
        A @ np.ones(s.global_dof_count)
        A @ np.arange(1.0, s.global_dof_count + 1)
        api.clear_fmm_cache()
        calls = [{"tree": t, "call": c} for t, c in fake_exafmm.CALLS]
        ev = [i for i, c in enumerate(calls) if c["call"] == "evaluate"]
        cl = [i for i, c in enumerate(calls) if c["call"] == "clear_values"]
        variants = [("recorded backend calls of an FMM double layer applied twice", calls, False)]
        v1 = copy.deepcopy(calls)
        v1.pop(cl[0])
        variants.append(("one clear_values dropped (stale values accumulated)", v1, True))
        v2 = copy.deepcopy(calls)
        v2[cl[1]], v2[ev[1]] = v2[ev[1]], v2[cl[1]]
        variants.append(("evaluate before clear_values", v2, True))
        v3 = [c for c in copy.deepcopy(calls) if c["call"] != "setup"]
        variants.append(("evaluation on a tree that was never set up", v3, True))
        for name, cs, expect_reject in variants:
            tf = os.path.join(d, "calls.json")
            with open(tf, "w") as fh:
                json.dump({"calls": cs}, fh)
            r = common.run_tlc("FmmTrace", "FmmTrace.cfg", workers=1, timeout=600, env={"TRACE_FILE": tf})
            vs = [json.loads(b) for k, b in r.printed if k == "TRC"]
            v = vs[0]["verdict"] if vs else "no verdict"
            report("FmmTrace", name, expect_reject, v, (v != "accept") == expect_reject and v != "no verdict")
    finally:
        os.chdir(cwd)
        import shutil

        shutil.rmtree(d, ignore_errors=True)


def launch_model(api, np):
    from harness import record_footprint as rf

    # two iterations, each read-modify-writes its own cell: accepted; the same two iterations on ONE cell: a lost update exists
    clean = {"id": 1, "launch": 1, "mode": "regular", "iterations": [0, 1], "threads": [[["r", 1], ["w", 1]], [["r", 2], ["w", 2]]], "own": [[1], [2]], "nshared": 0}
    racy = {"id": 2, "launch": 1, "mode": "regular", "iterations": [0, 1], "threads": [[["r", 1], ["w", 1]], [["r", 1], ["w", 1]]], "own": [[1], [1]], "nshared": 1}
    foreign = {"id": 3, "launch": 1, "mode": "regular", "iterations": [0, 1], "threads": [[["r", 1], ["w", 1]], [["r", 2], ["w", 2]]], "own": [[1], [1]], "nshared": 0}
    res, verdicts = rf.validate([clean, racy, foreign], workers=2)
    for l, name, expect_reject in ((clean, "two iterations writing disjoint cells", False), (racy, "two iterations read-modify-write one cell (same colour, shared dof)", True),
                                   (foreign, "an iteration writes a cell outside the rows of its element", True)):
        v = sorted(verdicts.get(l["id"], {"no verdict"}))
        rejected = any(x != "accept" for x in v)
        report("Launch", name, expect_reject, ",".join(v), rejected == expect_reject and v != ["no verdict"])


def pool_trace():
    r = subprocess.run([sys.executable, os.path.join(common.VERIF, "checks", "ext_pool.py"), "--tier", "quick"], capture_output=True, text=True,
                       env=dict(os.environ, VERIF_EVIDENCE_DIR=tempfile.mkdtemp(prefix="selftest_pool_")))
    # ext_pool.py itself validates the recorded trace (must be accepted) and a trace with one stale result (must be rejected; machinery failure otherwise)
    report("PoolTrace", "recorded host trace accepted and trace with a stale result rejected (checks/ext_pool.py)", False, "exit %d" % r.returncode, r.returncode == 0)


def mutants():
    d = os.path.join(common.VERIF, "selftest", "mutants")
    for f in sorted(os.listdir(d)):
        if not f.endswith(".diff"):
            continue
        head = f.split("-")[0].split("_")[0].lower()
        check = {"ext": "ext_octree"}.get(head, head)
        path = os.path.join(common.VERIF, "checks", check + ".py")
        if not os.path.exists(path):
            continue
        r = subprocess.run([os.path.join(common.VERIF, "tools", "mutant.sh"), os.path.join(d, f), path, "quick"], capture_output=True, text=True)
        code = [l for l in r.stdout.splitlines() if l.startswith("exit=")]
        report("mutant", f, True, code[-1] if code else "?", bool(code) and code[-1] == "exit=1")


def main():
    from harness import fake_exafmm

    fake_exafmm.install()
    api = common.use_repo()
    import numpy as np

    assembly_trace(api, np)
    history_trace(api, np)
    fmm_trace(api, np)
    launch_model(api, np)
    if "--no-pool" not in sys.argv:
        pool_trace()
    if "--mutants" in sys.argv:
        mutants()
    with open(os.path.join(common.VERIF, "selftest", "RESULT.json"), "w") as f:
        json.dump(RESULTS, f, indent=1)
    bad = [r for r in RESULTS if not r["as_required"]]
    print("%d controls, %d not as required" % (len(RESULTS), len(bad)))
    return 1 if bad else 0


if __name__ == "__main__":
    common.main(main)

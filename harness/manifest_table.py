# pid, level, technique, text, note, design_ref  (exec'd by manifest_gen.py)

# pid, level, technique, text, note, design_ref  (exec'd by manifest_gen.py)
reg("C11", "model_checking", "TLA+ spec (Mesh/GridModel) checked by TLC over an exhaustive sub-complex universe; terminal states replayed into Grid()",
    "TLC exhaustively explores GridModel (transcribed edge enumeration and adjacency search) over every sub-complex of the base meshes with rotation/reversal patterns and checks it against the numbering-free requirement module Mesh.tla; every terminal state is emitted as an obligation and replayed into bempp_cl.api.Grid, refine, barycentric_refinement, union and grid_from_segments, comparing sets/functions exactly and geometry against integer oracles.",
    "Trusted: TLC, the JSON boundary, numpy for comparing floats with integer oracles (1e-10 relative). Bounded to the universe U1 (<= 12 elements, integer coordinates).",
    "DESIGN 3.1, 3.2, 5 C11")

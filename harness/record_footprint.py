"""Footprint recorder (binding B, C16): the true read/write sequence of every prange iteration.

The shipped kernel *source* is executed through `<kernel>.py_func` while
`numba_kernels._numba` is replaced by a shim whose `prange` announces each iteration,
and `result` (or every array the kernel allocates, for the potential kernels) is an
ndarray subclass that logs element reads and writes.  No source change is needed.
"""

import json
import os
import tempfile

import numpy as np

from . import common


class Log:
    def __init__(self):
        self.launch = 0
        self.cur = None  # (launch, iteration)
        self.events = []  # (launch, iteration, op, array id, index tuple)
        self.arrays = 0
        self.meta = {}  # launch -> dict


LOG = Log()


class Traced(np.ndarray):
    _aid = -1

    def __array_finalize__(self, obj):
        self._aid = getattr(obj, "_aid", -1)

    @staticmethod
    def _norm(idx):
        if not isinstance(idx, tuple):
            idx = (idx,)
        out = []
        for i in idx:
            if isinstance(i, slice):
                out.append("%s:%s" % (i.start, i.stop))
            else:
                out.append(int(i))
        return tuple(out)

    def __getitem__(self, idx):
        if LOG.cur is not None and self._aid >= 0:
            LOG.events.append((LOG.cur[0], LOG.cur[1], "r", self._aid, self._norm(idx)))
        r = super().__getitem__(idx)
        if isinstance(r, np.ndarray):
            return np.asarray(r)
        return r

    def __setitem__(self, idx, v):
        if LOG.cur is not None and self._aid >= 0:
            LOG.events.append((LOG.cur[0], LOG.cur[1], "w", self._aid, self._norm(idx)))
        super().__setitem__(idx, v)


def traced(arr):
    t = arr.view(Traced)
    t._aid = LOG.arrays
    LOG.arrays += 1
    return t


class NumbaShim:
    def __init__(self, real):
        self._real = real

    def __getattr__(self, name):
        return getattr(self._real, name)

    def prange(self, n):
        LOG.launch += 1
        lid = LOG.launch
        for i in range(n):
            LOG.cur = (lid, i)
            yield i
        LOG.cur = None


class NumpyShim:
    """numpy whose allocation functions return traced arrays (for kernels that allocate `result` themselves)."""

    def __init__(self, real):
        self._real = real

    def __getattr__(self, name):
        return getattr(self._real, name)

    def zeros(self, *a, **k):
        return traced(self._real.zeros(*a, **k))

    def empty(self, *a, **k):
        return traced(self._real.empty(*a, **k))


class FootprintRecorder:
    """Wraps select_numba_kernels so that assembly functions run as interpreted source with tracing."""

    def __init__(self, trace_allocations=False):
        self.warm = False  # warm pass: interpreted source with the real numba (prange == range), nothing logged;
        # it makes numba compile every helper for the argument types the interpreted source passes
        self._orig = None
        self._numba = None
        self._np = None
        self.trace_allocations = trace_allocations
        self.calls = []  # (mode, first launch id, last launch id, info)

    def install(self):
        import bempp_cl.core.numba_kernels as nk

        self._orig = nk.select_numba_kernels
        self._numba = nk._numba
        self._np = nk._np
        rec = self

        def select(desc, mode="regular"):
            af, kf = rec._orig(desc, mode)
            py = getattr(af, "py_func", None)
            if py is None:
                return af, kf
            if mode == "sparse" and hasattr(kf, "py_func"):
                kf = kf.py_func  # the sparse kernels write to `result` inside the kernel function

            def run(*a):
                a = list(a)
                info = {"mode": mode, "assembly": desc.assembly_type if hasattr(desc, "assembly_type") else ""}
                if mode in ("regular", "singular", "sparse"):
                    a[-1] = traced(a[-1])
                    info["result_aid"] = a[-1]._aid
                if mode == "regular":
                    info.update(test_elements=[int(x) for x in a[4]], rows=np.asarray(a[8]).tolist(), ncols=int(a[-1].shape[1]))
                if not rec.warm:
                    nk._numba = NumbaShim(rec._numba)
                    if rec.trace_allocations or mode == "potential":
                        nk._np = NumpyShim(rec._np)
                first = LOG.launch + 1
                try:
                    out = py(*a)
                finally:
                    nk._numba = rec._numba
                    nk._np = rec._np
                    LOG.cur = None
                rec.calls.append((mode, first, LOG.launch, info))
                return out

            return run, kf

        nk.select_numba_kernels = select

    def uninstall(self):
        import bempp_cl.core.numba_kernels as nk

        if self._orig is not None:
            nk.select_numba_kernels = self._orig
            nk._numba = self._numba
            nk._np = self._np
            self._orig = None


def take_events():
    ev, LOG.events = LOG.events, []
    return ev


def launches_from(events, calls, max_threads=3, max_cells=4):
    """Group events into launches and cut them into windows of <= max_threads iterations.

    Per window the footprints are restricted to (i) every cell touched by at least two iterations of the
    window and (ii) the first `max_cells` cells each iteration writes (so that clean launches still have
    something to interleave).  The restriction (i) is exact for race detection: private cells cannot race.
    """
    by_launch = {}
    for (lid, it, op, aid, idx) in events:
        by_launch.setdefault(lid, {}).setdefault(it, []).append((op, (aid, idx)))
    info_of = {}
    for mode, first, last, info in calls:
        for lid in range(first, last + 1):
            info_of[lid] = (mode, info)
    out = []
    cell_ids = {}

    def cid(c):
        if c not in cell_ids:
            cell_ids[c] = len(cell_ids) + 1
        return cell_ids[c]

    stats = {"launches": 0, "iterations": 0, "accesses": 0, "shared_cells": 0}
    for lid in sorted(by_launch):
        its = by_launch[lid]
        mode, info = info_of.get(lid, ("?", {}))
        order = sorted(its)
        stats["launches"] += 1
        stats["iterations"] += len(order)
        stats["accesses"] += sum(len(v) for v in its.values())
        # whole-launch Bernstein data
        touch = {}
        for it in order:
            for op, c in its[it]:
                touch.setdefault(c, {}).setdefault(it, set()).add(op)
        shared = {c for c, d in touch.items() if len(d) >= 2 and any("w" in ops for ops in d.values())}
        stats["shared_cells"] += len(shared)
        windows = [order[i : i + max_threads] for i in range(0, len(order), max_threads)]
        # iterations that share a written cell are put in one window so that TLC sees them race
        for c in shared:
            grp = sorted(touch[c])[:max_threads]
            if grp not in windows:
                windows.append(grp)
        for w in windows:
            keep_all = sorted((c for c in shared if sum(1 for it in w if it in touch[c]) >= 2), key=repr)
            # all interleavings are explored over at most two of the shared cells (enough to exhibit a lost update);
            # the static Bernstein condition below is evaluated on all of them
            keep = set(keep_all[:2])
            threads, own = [], []
            for it in w:
                mine = []
                for op, c in its[it]:
                    if op == "w" and c not in mine:
                        mine.append(c)
                    if len(mine) >= max_cells:
                        break
                sel = keep | set(mine)
                # keep the first occurrence of each (op, cell): repeated read-modify-writes of one cell by one
                # iteration add no new conflicts (a conflict exists iff two iterations touch the cell at all)
                seq, seen = [], set()
                for op, c in its[it]:
                    if c in sel and (op, c) not in seen:
                        seen.add((op, c))
                        seq.append([op, cid(c)])
                threads.append(seq)
                # cells an iteration may write: rows of its element (regular launches), anything otherwise
                if mode == "regular" and "rows" in info:
                    el = info["test_elements"][it]
                    rows = set(int(r) for r in info["rows"][el])
                    aid = info["result_aid"]
                    own.append(sorted(set(cid(c) for op, c in its[it] if op == "w" and (c[0] != aid or c[1][0] in rows))))
                else:
                    own.append(sorted(set(cid(c) for op, c in its[it] if op == "w")))
            out.append({"id": len(out) + 1, "launch": lid, "mode": mode, "iterations": [int(x) for x in w], "threads": threads, "own": own,
                        "nshared": len(keep_all)})
    return out, stats


def validate(launches, timeout=1800, workers=8):
    d = tempfile.mkdtemp(prefix="launch_")
    path = os.path.join(d, "launches.json")
    with open(path, "w") as f:
        json.dump({"launches": launches}, f)
    try:
        res = common.run_tlc("Launch", "Launch.cfg", workers=workers, timeout=timeout, env={"TRACE_FILE": path})
    finally:
        try:
            os.remove(path)
            os.rmdir(d)
        except OSError:
            pass
    verdicts = {}
    for kind, body in res.printed:
        if kind == "TRC":
            v = json.loads(body)
            verdicts.setdefault(v["id"], set()).add(v["verdict"])
    return res, verdicts

"""Binding for C18: behaviours of spec/History.tla replayed against the real library.

Every call of a history is executed on real objects; the observation of the model (`res` = effective inputs of the
assembly) selects, from a table computed in a FRESH interpreter (new objects for every entry, global parameters set
before anything is created), the matrix the call has to return.  A mismatch means that the real result depends on
the history in a way the specification does not allow (or that the model of the caches drifted from the code).
"""

import json
import os
import subprocess
import sys
import tempfile

import numpy as np

REF_SCRIPT = r'''
import sys, numpy as np
sys.path.insert(0, sys.argv[1])
import bempp_cl.api as api
out = {}
V = np.array([[0,0,0],[1,0,0],[0,2,0],[1,2,0],[0,0,3],[1,0,3],[0,2,3],[1,2,3]],dtype=float).T
E = (np.array([[1,4,2],[1,3,4],[5,6,7],[6,8,7],[1,2,5],[2,6,5],[3,8,4],[3,7,8],[1,7,3],[1,5,7],[2,4,6],[4,8,6]])-1).T
PTS = np.array([[3.0,0.2,0.1],[0.1,-4.0,0.3],[0.5,0.4,5.0]]).T
def fresh():
    g = api.Grid(V, E)
    return g, api.function_space(g, "P", 1)
for reg in (1, 4):
    for sing in (3, 4):
        api.GLOBAL_PARAMETERS.quadrature.regular = reg
        api.GLOBAL_PARAMETERS.quadrature.singular = sing
        for kind in ("slp", "hyp", "idt", "mhyp"):
            g, s = fresh()
            if kind == "slp": op = api.operators.boundary.laplace.single_layer(s, s, s)
            elif kind == "hyp": op = api.operators.boundary.laplace.hypersingular(s, s, s)
            elif kind == "mhyp": op = api.operators.boundary.helmholtz.hypersingular(s, s, s, 0.9j)
            else: op = api.operators.boundary.sparse.identity(s, s, s)
            out["weak_%s_%d_%d" % (kind, reg, sing if kind != "idt" else 0)] = op.weak_form().to_dense()
    g, s = fresh()
    out["mass_%d" % reg] = s.mass_matrix().to_dense()
    g, s = fresh()
    f = api.GridFunction(s, coefficients=np.arange(1.0, s.global_dof_count + 1))
    out["pot_%d" % reg] = api.operators.potential.laplace.single_layer(s, PTS).evaluate(f)
np.savez(sys.argv[2], **out)
import shutil
shutil.rmtree(getattr(api, 'TMP_PATH', '/nonexistent'), ignore_errors=True)   # the library's import-time scratch directory
'''


def reference_table(repo):
    d = tempfile.mkdtemp(prefix="histref_")
    path = os.path.join(d, "ref.npz")
    env = dict(os.environ)
    env["PYTHONHASHSEED"] = "0"
    p = subprocess.run([sys.executable, "-c", REF_SCRIPT, repo, path], stdout=subprocess.PIPE, stderr=subprocess.STDOUT, env=env)
    if p.returncode != 0:
        raise RuntimeError("reference process failed:\n" + p.stdout.decode()[-2000:])
    ref = dict(np.load(path))
    os.remove(path)
    os.rmdir(d)
    return ref


# the 1x2x3 box with 12 elements: the P1 mass matrix at quadrature order 1 is inexact but non-singular there
V = np.array([[0, 0, 0], [1, 0, 0], [0, 2, 0], [1, 2, 0], [0, 0, 3], [1, 0, 3], [0, 2, 3], [1, 2, 3]], dtype=float).T
E = (np.array([[1, 4, 2], [1, 3, 4], [5, 6, 7], [6, 8, 7], [1, 2, 5], [2, 6, 5], [3, 8, 4], [3, 7, 8], [1, 7, 3], [1, 5, 7], [2, 4, 6], [4, 8, 6]]) - 1).T
PTS = np.array([[3.0, 0.2, 0.1], [0.1, -4.0, 0.3], [0.5, 0.4, 5.0]]).T


def close(a, b):
    a, b = np.asarray(a), np.asarray(b)
    if a.shape != b.shape:
        return False
    return float(np.abs(a - b).max()) <= 1e-10 * max(1e-3, float(np.abs(b).max()))


def classify(mat, ref, prefix):
    """Which entry of the fresh-process table does `mat` equal?  Returns the list of integers after the prefix, or [-1]."""
    hits = [k for k in ref if k.startswith(prefix) and close(mat, ref[k])]
    return [[int(x) for x in h[len(prefix):].split("_") if x != ""] for h in sorted(hits)] or [[-1]]


def record(api, hist, ref):
    """Execute the calls of a history on the real library; return the trace of observed effective inputs."""
    from bempp_cl.api.utils.parameters import DefaultParameters

    par = api.GLOBAL_PARAMETERS
    par.quadrature.regular, par.quadrature.singular = 4, 4
    api.clear_fmm_cache()
    P = DefaultParameters()
    g = api.Grid(V, E)
    s = api.function_space(g, "P", 1)
    f = api.GridFunction(s, coefficients=np.arange(1.0, s.global_dof_count + 1))
    ops, weak_obj, out = {}, {}, []
    notes = []
    try:
        for n, st in enumerate(hist):
            call, slot, arg = st["call"], st["slot"], st["arg"]
            res = [[]]
            if call == "set_global":
                setattr(par.quadrature, "regular" if arg[0] == "reg" else "singular", arg[1])
            elif call == "mutate_params":
                setattr(P.quadrature, "regular" if arg[0] == "reg" else "singular", arg[1])
            elif call == "create":
                kind, pref = arg
                pp = None if pref == "G" else P
                fac = {"slp": lambda: api.operators.boundary.laplace.single_layer(s, s, s, parameters=pp),
                       "hyp": lambda: api.operators.boundary.laplace.hypersingular(s, s, s, parameters=pp),
                       "mhyp": lambda: api.operators.boundary.helmholtz.hypersingular(s, s, s, 0.9j, parameters=pp),   # routed to modified Helmholtz
                       "idt": lambda: api.operators.boundary.sparse.identity(s, s, s, parameters=pp),
                       "fmm": lambda: api.operators.boundary.laplace.single_layer(s, s, s, assembler="fmm", parameters=pp),
                       "pot": lambda: api.operators.potential.laplace.single_layer(s, PTS, parameters=pp)}[kind]
                ops[slot] = (kind, fac())
            elif call == "weak_form":
                kind, op = ops[slot]
                w = op.weak_form()
                if slot in weak_obj and weak_obj[slot] is not w:
                    notes.append((n, "repeated weak_form() returned a different object"))
                weak_obj[slot] = w
                if kind == "fmm":      # matrix-free: apply to the unit vectors; with the exact backend it is the dense single layer of its effective orders
                    res = classify(np.asarray(w @ np.eye(w.shape[1])), ref, "weak_slp_")
                else:
                    res = classify(w.to_dense(), ref, "weak_%s_" % kind)
            elif call == "strong_form":
                kind, op = ops[slot]
                sf = op.strong_form().to_dense()
                res = []
                for k in sorted(ref):
                    if k.startswith("weak_%s_" % kind):
                        for m in (1, 4):
                            if close(sf, np.linalg.solve(ref["mass_%d" % m], ref[k])):
                                res.append([int(x) for x in k[len("weak_%s_" % kind):].split("_")] + [m])
                res = res or [[-1]]
            elif call == "clear_fmm":
                api.clear_fmm_cache()
            elif call == "mass_matrix":
                res = classify(s.mass_matrix().to_dense(), ref, "mass_")
            elif call == "evaluate":
                kind, op = ops[slot]
                res = classify(op.evaluate(f), ref, "pot_")
            out.append({"call": call, "slot": slot, "arg": arg, "res": res})
    finally:
        par.quadrature.regular, par.quadrature.singular = 4, 4
    return out, notes


def validate(traces, cfg="HistoryTrace.cfg", timeout=1800):
    import json as _json
    import tempfile as _tf
    from . import common

    d = _tf.mkdtemp(prefix="histtrace_")
    path = os.path.join(d, "traces.json")
    with open(path, "w") as fh:
        _json.dump({"traces": traces}, fh)
    try:
        res = common.run_tlc("HistoryTrace", cfg, workers=1, timeout=timeout, env={"TRACE_FILE": path})
    finally:
        os.remove(path)
        os.rmdir(d)
    verdicts = {}
    for kind, body in res.printed:
        if kind == "TRC":
            v = _json.loads(body)
            verdicts[v["id"]] = v
    return res, verdicts


def replay(api, hist, ref, fail):
    """Execute one history. fail(step index, call, detail)."""
    from bempp_cl.api.utils.parameters import DefaultParameters

    par = api.GLOBAL_PARAMETERS
    par.quadrature.regular, par.quadrature.singular = 4, 4
    P = DefaultParameters()
    g = api.Grid(V, E)
    s = api.function_space(g, "P", 1)
    f = api.GridFunction(s, coefficients=np.arange(1.0, s.global_dof_count + 1))
    ops, weak_obj, strong_val = {}, {}, {}
    try:
        for n, st in enumerate(hist):
            call, slot, arg, res = st["call"], st["slot"], st["arg"], st["res"]
            if call == "set_global":
                setattr(par.quadrature, "regular" if arg[0] == "reg" else "singular", arg[1])
            elif call == "mutate_params":
                setattr(P.quadrature, "regular" if arg[0] == "reg" else "singular", arg[1])
            elif call == "create":
                kind, pref = arg
                pp = None if pref == "G" else P
                if kind == "slp":
                    ops[slot] = (kind, api.operators.boundary.laplace.single_layer(s, s, s, parameters=pp))
                elif kind == "hyp":
                    ops[slot] = (kind, api.operators.boundary.laplace.hypersingular(s, s, s, parameters=pp))
                elif kind == "idt":
                    ops[slot] = (kind, api.operators.boundary.sparse.identity(s, s, s, parameters=pp))
                elif kind == "mhyp":
                    ops[slot] = (kind, api.operators.boundary.helmholtz.hypersingular(s, s, s, 0.9j, parameters=pp))
                else:
                    ops[slot] = (kind, api.operators.potential.laplace.single_layer(s, PTS, parameters=pp))
            elif call == "weak_form":
                kind, op = ops[slot]
                w = op.weak_form()
                if slot in weak_obj and weak_obj[slot] is not w:
                    fail(n, call, "repeated weak_form() returned a different object")
                weak_obj[slot] = w
                want = ref["weak_%s_%d_%d" % (kind, res[0], res[1])]
                if not close(w.to_dense(), want):
                    fail(n, call, "weak form of %s differs from what a fresh process computes with orders %s (max diff %.3g)" % (kind, res, np.abs(w.to_dense() - want).max()))
            elif call == "strong_form":
                kind, op = ops[slot]
                sf = op.strong_form().to_dense()
                want = np.linalg.solve(ref["mass_%d" % res[2]], ref["weak_%s_%d_%d" % (kind, res[0], res[1])])
                if not close(sf, want):
                    alt = [m for m in (1, 4) if close(sf, np.linalg.solve(ref["mass_%d" % m], ref["weak_%s_%d_%d" % (kind, res[0], res[1])]))]
                    fail(n, call, "strong form of %s differs from the fresh-process result for weak orders %s and mass-matrix order %d (max diff %.3g%s)" % (
                        kind, res[:2], res[2], np.abs(sf - want).max(), "; it equals the result with mass order %s" % alt if alt else ""))
                if slot in strong_val and not np.array_equal(strong_val[slot], sf):
                    fail(n, call, "repeated strong_form() changed")
                strong_val[slot] = sf
            elif call == "mass_matrix":
                m = s.mass_matrix().to_dense()
                if not close(m, ref["mass_%d" % res[0]]):
                    alt = [k for k in (1, 4) if close(m, ref["mass_%d" % k])]
                    fail(n, call, "mass matrix differs from the fresh-process one at order %d%s" % (res[0], " (equals order %s)" % alt if alt else ""))
            elif call == "evaluate":
                kind, op = ops[slot]
                v = op.evaluate(f)
                if not close(v, ref["pot_%d" % res[0]]):
                    fail(n, call, "potential values differ from the fresh-process ones at order %d" % res[0])
            else:
                raise ValueError(call)
    finally:
        par.quadrature.regular, par.quadrature.singular = 4, 4

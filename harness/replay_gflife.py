"""Replay of GfLife.tla behaviours on real GridFunction objects (space P1 on the 12-element box; dual spaces 1 = P1, 2 = DUAL0)."""

import numpy as np

V = np.array([[0, 0, 0], [1, 0, 0], [0, 2, 0], [1, 2, 0], [0, 0, 3], [1, 0, 3], [0, 2, 3], [1, 2, 3]], dtype=float).T
E = (np.array([[1, 4, 2], [1, 3, 4], [5, 6, 7], [6, 8, 7], [1, 2, 5], [2, 6, 5], [3, 8, 4], [3, 7, 8], [1, 7, 3], [1, 5, 7], [2, 4, 6], [4, 8, 6]]) - 1).T
SCAL = {"two": 2, "mhalf": -0.5, "cplx": 1 + 2j}


class World:
    def __init__(self, api):
        self.api = api
        g = api.Grid(V, E)
        self.sp = api.function_space(g, "P", 1)
        self.D = {1: self.sp, 2: api.function_space(g, "DUAL", 0)}
        ident = api.operators.boundary.sparse.identity
        self.M = {d: np.asarray(ident(self.sp, self.sp, self.D[d]).weak_form().to_dense()) for d in (1, 2)}
        rng = np.random.RandomState(5)
        n = self.sp.global_dof_count
        self.c = {1: rng.randint(-3, 4, n) + 1j * rng.randint(-3, 4, n), 2: rng.randint(-3, 4, n).astype(float)}

    def value(self, den):
        op = den[0]
        if op == "c":
            return self.c[den[1]]
        if op == "scale":
            return SCAL[den[1]] * self.value(den[2])
        if op == "real":
            return np.real(self.value(den[1]))
        if op == "add":
            return self.value(den[1]) + self.value(den[2])
        if op == "proj":
            return self.M[den[1]].dot(self.value(den[2]))
        raise KeyError(op)

    def run(self, hist, fail):
        """Execute one behaviour; fail(step, call, detail) for every disagreement with the specification."""
        api = self.api
        objs = {}
        for n, st in enumerate(hist):
            call, a = st["call"], st["args"]
            got = None
            if call == "new_primal":
                objs[a[0]] = api.GridFunction(self.sp, coefficients=self.c[a[1]].copy())
            elif call == "new_dual":
                objs[a[0]] = api.GridFunction(self.sp, projections=self.M[a[2]].dot(self.c[a[1]]), dual_space=self.D[a[2]])
            elif call == "coefficients":
                got = np.asarray(objs[a[0]].coefficients)
            elif call == "projections":
                got = np.asarray(objs[a[0]].projections(self.D[a[1]]))
            elif call == "scale":
                objs[a[2]] = SCAL[a[1]] * objs[a[0]]
            elif call == "real":
                objs[a[1]] = objs[a[0]].real
            elif call == "add":
                objs[a[2]] = objs[a[0]] + objs[a[1]]
            else:
                raise KeyError(call)
            if got is not None:
                want = self.value(st["res"])
                if got.shape != want.shape or np.abs(got - want).max() > 1e-10 * max(1.0, np.abs(want).max()):
                    fail(n, call, "returned numbers differ from the denotation %s by %.3g" % (st["res"], np.abs(got - want).max() if got.shape == want.shape else float("nan")))
                    return
            for s, rep in enumerate(st["reps"], start=1):
                if rep in ("primal", "dual") and objs[s].representation != rep:
                    fail(n, call, "object %d is in %s representation, the specification says %s" % (s, objs[s].representation, rep))
                    return

"""Binding (A)+(C) for C10: BaryModel obligations replayed into barycentric representations and dual spaces.

Everything is located *geometrically*: a barycentric element is identified by the (x6, integer) coordinates
of its corners, never by its number, so the oracle does not depend on the 6e+j numbering.
"""

import numpy as np

from . import replay_dual as rd
from . import replay_grid as rg

REF = np.array([[0.0, 0.0], [1.0, 0.0], [0.0, 1.0]])
TOL = 1e-10


class BMesh:
    def __init__(self, h):
        self.h = h
        self.id = h["id"]
        self.xyz = np.array(h["xyz"], dtype=float)
        self.el = np.array(h["el"], dtype=int) - 1
        self.n = len(self.el)
        self.elem = {}

    def add(self, ob):
        self.elem[ob["e"] - 1] = ob

    def complete(self):
        return len(self.elem) == self.n

    def grid(self, api, dom=None):
        return api.Grid(self.xyz.T.copy(), self.el.T.astype("uint32"), dom)


def collect(obligations):
    ms = {}
    for ob in obligations:
        if ob["kind"] == "mesh":
            ms[ob["id"]] = BMesh(ob)
    for ob in obligations:
        if ob["kind"] == "element":
            ms[ob["id"]].add(ob)
    return [m for m in ms.values() if m.complete()]


def node_of(p6):
    q = np.round(p6)
    if not (np.abs(q - p6).max() <= 1e-8):   # NaN counts as a deviation
        return None
    return tuple(int(x) for x in q)


def bary_layout(m, bg):
    """For every barycentric element: (parent coarse element by geometry, corner nodes x6)."""
    child_parent = {}
    for e in range(m.n):
        for c in m.elem[e]["children"]:
            child_parent.setdefault(tuple(tuple(p) for p in c), []).append(e)
    out = []
    for b in range(bg.number_of_elements):
        corners = [node_of(bg.vertices[:, v] * 6) for v in bg.elements[:, b]]
        if any(c is None for c in corners):
            return None
        key = rg.cyc_nf([np.array(c) for c in corners])
        parents = child_parent.get(key)
        out.append((parents, corners))
    return out


def coarse_local(m, e, node):
    """Reference coordinates in coarse element e of a node (x6 coordinates)."""
    p = np.array(node, dtype=float) / 6.0
    p0, p1, p2 = (m.xyz[v] for v in m.el[e])
    A = np.array([p1 - p0, p2 - p0]).T
    xi, res, _, _ = np.linalg.lstsq(A, p - p0, rcond=None)
    if not (np.abs(A.dot(xi) - (p - p0)).max() <= 1e-9):   # NaN counts as a deviation
        return None
    return xi


def coarse_values(space, e, xi, coeffs):
    """Value of the function with global coefficients `coeffs` on coarse element e at reference point xi."""
    vals = space.evaluate(int(e), np.array(xi, dtype=float).reshape(2, 1))
    l2g = space.local2global
    return sum(vals[:, i, 0] * coeffs[int(l2g[e, i])] for i in range(l2g.shape[1]))  # multipliers are inside evaluate


def bary_function(bspace, b, pts, coeffs, D=None):
    vals = rd.bary_values(bspace, b, pts, D)
    out = 0
    for d, v in vals.items():
        out = out + coeffs[d] * v
    if isinstance(out, int):
        return np.zeros((bspace.codomain_dimension, np.asarray(pts).shape[1]))
    return out

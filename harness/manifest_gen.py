"""Regenerates /verif/MANIFEST.json from the table below (single source of truth)."""
import json, os, sys

VERIF = os.path.dirname(os.path.dirname(os.path.abspath(__file__)))
PY = "/venv/bin/python"

# pid -> (level, technique, text, note, design_ref)
CHECKS = {}

def reg(pid, level, technique, text, note, ref):
    CHECKS[pid] = (level, technique, text, note, ref)

exec(open(os.path.join(VERIF, "harness", "manifest_table.py")).read())

NA = {
    "C08": "Every clause is a statement of real analysis (PDE residuals to finite-difference accuracy, closed-form transcendental kernel sums, a limit r->inf, a phase law): no discrete state, schedule or exact integer/rational oracle for TLC to decide; the discrete plumbing it shares with C02/C07 is checked there (DESIGN 6).",
    "C20": "Float equality of two hand-written implementations (OpenCL C vs Numba) over real inputs: no state or transitions to model; needs compiling kernels.h and differential testing, a different technique; no OpenCL runtime in the sandbox (DESIGN 6).",
}
ALL = ["C%02d" % i for i in range(1, 21)]

def main():
    checks = []
    for pid in ALL:
        if pid not in CHECKS:
            continue
        level, technique, text, note, ref = CHECKS[pid]
        n = pid.lower()
        checks.append({
            "property_id": pid,
            "quick_cmd": "%s /verif/checks/%s.py --tier quick" % (PY, n),
            "thorough_cmd": "%s /verif/checks/%s.py --tier thorough" % (PY, n),
            "evidence_file": "/verif/evidence/%s.json" % pid,
            "replay_cmd_template": "%s /verif/checks/%s.py --replay {path}" % (PY, n),
            "engine": "tlc+replay",
            "level_claimed": {"category": level, "text": text, "design_ref": ref},
            "level_note": note,
            "technique": technique,
        })
    na = []
    for pid in ALL:
        if pid in CHECKS:
            continue
        na.append({"property_id": pid, "reason": NA.get(pid, "check not built yet in this session (planned, see DESIGN.md section 5); not claimed until its spec and binding exist")})
    m = {
        "version": 1,
        "setup_cmd": "%s /verif/harness/setup.py" % PY,
        "hooks": {
            "guard": "BEMPP_CL_VERIF",
            "enable": "no source hooks: all recorders are installed at run time by /verif/harness (monkeypatching in the checking process); checks set BEMPP_CL_VERIF=1 for completeness",
            "baseline_off_cmd": "cd /repo && env -u BEMPP_CL_VERIF /venv/bin/python -m pytest -ra -q -p no:cacheprovider --timeout=900 --continue-on-collection-errors",
            "source_commits": [],
            "add_only": True,
        },
        "engines": [
            {"name": "tlc+replay", "path": "/verif/harness", "serves_properties": sorted(CHECKS), "kind_free_text": "explicit TLA+ specifications in /verif/spec checked by TLC (invariants, refinement of requirement modules by algorithm modules, exhaustive universes); bound to bempp-cl by (A) replaying TLC-emitted obligations/behaviours into the real library and (B) validating traces recorded from the real library against trace specs"}
        ],
        "checks": checks,
        "not_applicable": na,
        "notes": "See DESIGN.md (section 12 = as built) and spec/README.md. Exit codes: 0 held, 1 violation (VIOLATION line), 2 machinery failure; every check accepts --replay <file>. known_findings.json lists genuine defects repaired (fixed: ...) or recorded (open). Beyond the listed properties: checks/ext_pool.py, checks/ext_octree.py, checks/ext_multitrace.py (evidence in evidence_ext/), spec/proofs/ColouringProof.tla (TLAPS, re-checked by c16), selftest/run.py (bindings: recorded traces accepted, corrupted ones rejected; --mutants runs the code mutants).",
    }
    with open(os.path.join(VERIF, "MANIFEST.json"), "w") as f:
        json.dump(m, f, indent=1)
        f.write("\n")
    # validate
    try:
        import jsonschema
        jsonschema.validate(m, json.load(open("/root/.vp/MANIFEST.schema.json")))
        print("MANIFEST valid;", len(checks), "checks,", len(na), "not_applicable")
    except ImportError:
        print("MANIFEST written (jsonschema unavailable)")

if __name__ == "__main__":
    main()

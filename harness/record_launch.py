"""Launch recorder (binding B): logs every call into a Numba assembly function.

`numba_kernels.select_numba_kernels` is wrapped at run time (no source change) so
that the regular assembly function (one call per colour batch) and the singular
assembly function (one call with the whole singular plan) announce their discrete
arguments before the real function runs.  The recorded plan is turned into events
of spec/AssemblyTrace.tla; remaps are *recovered from the rule-table slices* that
the offsets select, so a wrong offset table, a wrong remap or misaligned weights
all show up as a wrong event.
"""

import json
import os
import tempfile

import numpy as np

from . import common

REFV = np.array([[0.0, 1.0, 0.0], [0.0, 0.0, 1.0]])
CLS = {"coincident": "coin", "edge_adjacent": "edge", "vertex_adjacent": "vert"}


class LaunchRecorder:
    def __init__(self):
        self.calls = []  # raw calls of the current trace
        self._orig = None

    def install(self):
        import bempp_cl.core.numba_kernels as nk

        if self._orig is not None:
            return
        self._orig = nk.select_numba_kernels
        rec = self

        def select(desc, mode="regular"):
            af, kf = rec._orig(desc, mode)
            if mode == "regular":

                def regular(*a):
                    rec.calls.append(("regular", np.array(a[4]).copy(), np.array(a[5]).copy(), bool(a[16])))
                    return af(*a)

                return regular, kf
            if mode == "singular":

                def singular(*a):
                    rec.calls.append(("singular",) + tuple(np.array(x).copy() for x in a[1:10]))
                    return af(*a)

                return singular, kf
            return af, kf

        nk.select_numba_kernels = select

    def uninstall(self):
        import bempp_cl.core.numba_kernels as nk

        if self._orig is not None:
            nk.select_numba_kernels = self._orig
            self._orig = None

    def take(self):
        c, self.calls = self.calls, []
        return c


def _affine_images(slice_pts, base_pts):
    """Images of the three reference vertices under the affine map base -> slice, or None."""
    n = base_pts.shape[1]
    A = np.vstack([base_pts, np.ones(n)]).T  # n x 3
    sol, res, rank, _ = np.linalg.lstsq(A, slice_pts.T, rcond=None)
    if rank < 3 or np.abs(A.dot(sol) - slice_pts.T).max() > 1e-12:
        return None
    img = np.vstack([REFV, np.ones(3)]).T.dot(sol).T  # 2 x 3
    out = []
    for k in range(3):
        d = np.abs(REFV - img[:, [k]]).max(axis=0)
        j = int(np.argmin(d))
        if d[j] > 1e-12:
            return None
        out.append(j)
    return out if len(set(out)) == 3 else None


def plan_events(calls, order):
    """Translate raw calls into AssemblyTrace events (1-based ids)."""
    from bempp_cl.api.integration import duffy_galerkin as dg

    base = {c: dg.rule(order, name) for name, c in CLS.items()}
    ev = []
    for call in calls:
        if call[0] == "regular":
            _, batch, trial, ident = call
            ev.append({"ev": "regular", "test": [int(x) + 1 for x in batch], "trial": [int(x) + 1 for x in trial],
                       "cls": "reg", "wcls": "reg", "tmap": [], "smap": [], "npts": 0})
            continue
        _, tp, sp, w, te, se, toff, soff, woff, nq = call
        for i in range(len(te)):
            n = int(nq[i])
            cls = {len(base["coin"][2]): "coin", len(base["edge"][2]): "edge", len(base["vert"][2]): "vert"}.get(n, "none")
            wsl = w[int(woff[i]) : int(woff[i]) + n]
            wcls = "none"
            for c in ("coin", "edge", "vert"):
                if len(base[c][2]) == n and np.array_equal(wsl, base[c][2]):
                    wcls = c
            tmap, smap = [0], [0]
            if cls != "none":
                bt, bs, _ = base[cls]
                ti = _affine_images(tp[:, int(toff[i]) : int(toff[i]) + n], bt) if int(toff[i]) + n <= tp.shape[1] else None
                si = _affine_images(sp[:, int(soff[i]) : int(soff[i]) + n], bs) if int(soff[i]) + n <= sp.shape[1] else None
                if ti is not None and si is not None:
                    if cls == "coin":
                        tmap = [] if ti == [0, 1, 2] else [x + 1 for x in ti]
                        smap = [] if si == [0, 1, 2] else [x + 1 for x in si]
                    elif cls == "edge":
                        tmap, smap = [ti[0] + 1, ti[1] + 1], [si[0] + 1, si[1] + 1]
                    else:
                        tmap, smap = [ti[0] + 1], [si[0] + 1]
            ev.append({"ev": "singular", "test": [int(te[i]) + 1], "trial": [int(se[i]) + 1], "cls": cls, "wcls": wcls,
                       "tmap": tmap, "smap": smap, "npts": n})
    return ev


def make_trace(tid, grid, test_space, trial_space, order, calls):
    ident = test_space.grid == trial_space.grid
    return {
        "id": tid,
        "el": (grid.elements.T.astype(int) + 1).tolist(),
        "supT": [int(e) + 1 for e in np.flatnonzero(test_space.support)],
        "supS": [int(e) + 1 for e in np.flatnonzero(trial_space.support)],
        "ident": bool(ident),
        "rows": (test_space.local2global.astype(int) + 1).tolist(),
        "order": int(order),
        "events": plan_events(calls, order),
    }


def validate(traces, workers=1, timeout=1200):
    """Run TLC on spec/AssemblyTrace.tla for a batch of traces. Returns (TlcResult, {id: verdict record})."""
    d = tempfile.mkdtemp(prefix="asmtrace_")
    path = os.path.join(d, "traces.json")
    with open(path, "w") as f:
        json.dump({"traces": traces}, f)
    try:
        res = common.run_tlc("AssemblyTrace", "AssemblyTrace.cfg", workers=workers, timeout=timeout, env={"TRACE_FILE": path})
    finally:
        try:
            os.remove(path)
            os.rmdir(d)
        except OSError:
            pass
    verdicts = {}
    for kind, body in res.printed:
        if kind == "TRC":
            v = json.loads(body)
            verdicts[v["id"]] = v
    return res, verdicts

"""Binding (A) for C14: every expression tree of spec/OpAlgebra.tla is built from real objects with the Python
operators and compared with the verdict, type and denotation the specification gives.

The evaluator of denotations below only knows linear-algebra primitives (add, scal, mul, minv, ...): which
expression a tree denotes - in particular that a product is W . Minv . W - is decided by the specification.
"""

import numpy as np

TOL = 1e-9


class Pool:
    def __init__(self, api):
        self.api = api
        # the 1x2x3 box (12 elements): its P1 / DP0 incidence has full rank, so rectangular mass matrices are well posed
        V = np.array([[0, 0, 0], [1, 0, 0], [0, 2, 0], [1, 2, 0], [0, 0, 3], [1, 0, 3], [0, 2, 3], [1, 2, 3]], dtype=float).T
        E = (np.array([[1, 4, 2], [1, 3, 4], [5, 6, 7], [6, 8, 7], [1, 2, 5], [2, 6, 5], [3, 8, 4], [3, 7, 8], [1, 7, 3], [1, 5, 7], [2, 4, 6], [4, 8, 6]]) - 1).T
        g = api.Grid(V, E)
        self.grid = g
        self.sp = {1: api.function_space(g, "P", 1), 2: api.function_space(g, "DP", 0), 3: api.function_space(g, "DP", 1)}
        b = api.operators.boundary
        s = self.sp
        self.bo = {
            "V11": b.laplace.single_layer(s[1], s[1], s[1]),
            "V22": b.laplace.single_layer(s[2], s[2], s[2]),
            "K12": b.laplace.double_layer(s[1], s[2], s[2]),
            "T21": b.laplace.adjoint_double_layer(s[2], s[1], s[1]),
            "I11": b.sparse.identity(s[1], s[1], s[1]),
            "H11": b.helmholtz.single_layer(s[1], s[1], s[1], 0.8 + 0.3j),
            "V33": b.laplace.single_layer(s[3], s[3], s[3]),
            "X12": b.laplace.single_layer(s[1], s[2], s[1]),
            "S11": b.laplace.double_layer(s[1], s[1], s[1], precision="single"),
        }
        self.W = {k: np.asarray(v.weak_form().to_dense()) for k, v in self.bo.items()}
        self.W = {k: w.astype(np.result_type(w.dtype, np.float64)) for k, w in self.W.items()}     # the single-precision atom: numbers as assembled, arithmetic in double
        rng = np.random.RandomState(3)
        self.c = {"f1": rng.randint(-3, 4, 8).astype(float), "g1": rng.randint(-3, 4, 8) + 1j * rng.randint(-3, 4, 8),
                  "f2": rng.randint(-3, 4, 12).astype(float), "f3": rng.randint(-3, 4, 36).astype(float)}
        self.gfsp = {"f1": 1, "g1": 1, "f2": 2, "f3": 3}
        self.gf = {k: api.GridFunction(s[self.gfsp[k]], coefficients=v) for k, v in self.c.items()}
        self._dualrep = None   # atoms in dual representation are defined once the mass matrices exist (below)
        self.pts = np.array([[3.0, 0.2, 0.1], [0.1, -4.0, 0.3], [0.5, 0.4, 7.0], [4.0, 4.0, 4.0]]).T
        p = api.operators.potential.laplace
        self.pot = {"p1": p.single_layer(s[1], self.pts), "q1": p.double_layer(s[1], self.pts), "p2": p.single_layer(s[2], self.pts)}
        self.potsp = {"p1": 1, "q1": 1, "p2": 2}
        self.scal = {"two": 2, "mhalf": -0.5, "cplx": 1 + 2j, "np3": np.float64(3.0), "npc": np.complex128(2 - 1j), "m1": -1.0}
        self.mass = {}
        for r, d in ((1, 1), (2, 2), (3, 3), (2, 1)):
            self.mass[(r, d)] = np.asarray(b.sparse.identity(s[r], s[r], s[d]).weak_form().to_dense())
        # grid functions given by projections: d2 onto the dual space 2, e2 onto the dual space 1 (what V22*f2 and X12*f1 return).
        # Reading .coefficients moves a function to the primal representation, so these atoms are rebuilt on every use.
        self._dualrep = {"d2": (2, 2, self.mass[(2, 2)].dot(rng.randint(-3, 4, 12).astype(float))), "e2": (2, 1, self.mass[(2, 1)].dot(rng.randint(-3, 4, 12).astype(float)))}
        for k, (spc, du, pr) in self._dualrep.items():
            self.c[k] = self.minv(spc, du).dot(pr)
            self.gfsp[k] = spc
        self.blkdef = {"B": [["V11", "T21"], ["K12", "V22"]], "C": [["I11", None], [None, "V22"]], "R": [["T21", "V11"], ["V22", "K12"]], "D": [["V33"]], "E": [["X12"]], "F": [["X12", None], [None, "V22"]]}
        self.blk = {}
        for name, rows in self.blkdef.items():
            B = api.BlockedOperator(len(rows), len(rows[0]))
            for i, row in enumerate(rows):
                for j, a in enumerate(row):
                    if a is not None:
                        B[i, j] = self.bo[a]
            self.blk[name] = B
        self.gfl = {"fl12": ["f1", "f2"], "fl21": ["f2", "f1"], "fl3": ["f3"], "fl1": ["f1"]}
        self.ndof = {1: 8, 2: 12, 3: 36}
        # element-wise block shapes of the blocked atoms
        self.blkshape = {"B": ([1, 2], [1, 2]), "C": ([1, 2], [1, 2]), "R": ([1, 2], [2, 1]), "D": ([3], [3]), "E": ([1], [1]), "F": ([1, 2], [1, 2])}

    # ---- building real objects -------------------------------------------------
    def build(self, t):
        k = t["k"]
        if k == "atom":
            kind = t["kind"]
            if kind == "bo":
                return self.bo[t["id"]]
            if kind == "gf":
                if t["id"] in self._dualrep:
                    spc, du, pr = self._dualrep[t["id"]]
                    return self.api.GridFunction(self.sp[spc], projections=pr.copy(), dual_space=self.sp[du])
                return self.gf[t["id"]]
            if kind == "pot":
                return self.pot[t["id"]]
            if kind == "blk":
                return self.blk[t["id"]]
            return [self.gf[x] for x in self.gfl[t["id"]]]
        if k == "neg":
            return -self.build(t["x"])
        if k == "scale":
            return self.scal[t["a"]] * self.build(t["x"])
        if k == "rscale":
            return self.build(t["x"]) * self.scal[t["a"]]
        if k == "div":
            return self.build(t["x"]) / self.scal[t["a"]]
        l, r = self.build(t["l"]), self.build(t["r"])
        if k == "sum":
            return l + r
        if k == "diff":
            return l - r
        return l * r

    def numbers(self, obj, kind):
        """Force the object to produce numbers (this is where lazily built expressions fail)."""
        api = self.api
        if kind == "bo":
            return np.asarray(obj.weak_form().to_dense())
        if kind == "gf":
            return np.asarray(obj.coefficients)
        if kind == "blk":
            return np.asarray(obj.weak_form().to_dense())
        if kind == "gfl":
            return np.concatenate([np.asarray(f.coefficients) for f in obj])
        if kind == "val":
            return np.asarray(obj)
        raise KeyError(kind)

    def any_numbers(self, obj):
        """For ill-typed trees: try every way of obtaining numbers from whatever came back."""
        out = []
        if isinstance(obj, type) or obj is NotImplemented:
            raise TypeError("not an operator: %r" % (obj,))
        for attr in ("weak_form", "strong_form"):
            if hasattr(obj, attr):
                out.append(np.asarray(getattr(obj, attr)().to_dense()))
        if hasattr(obj, "coefficients"):
            out.append(np.asarray(obj.coefficients))
        if hasattr(obj, "evaluate") and hasattr(obj, "space"):
            for f in self.gf.values():
                if f.space.global_dof_count == obj.space.global_dof_count:
                    out.append(np.asarray(obj.evaluate(f)))
        if isinstance(obj, (list, tuple)):
            for f in obj:
                out.append(np.asarray(f.coefficients))
        if isinstance(obj, np.ndarray):
            if obj.dtype == object:
                for x in obj.ravel():
                    out += self.any_numbers(x)
            else:
                out.append(obj)
        if not out:
            raise TypeError("no numbers obtainable from %r" % type(obj))
        return out

    # ---- denotations -------------------------------------------------------------
    def minv(self, r, d):
        return np.linalg.pinv(self.mass[(r, d)])  # square: the inverse; rectangular: what the library's least-squares solve computes

    def blockmat(self, name):
        rows = self.blkdef[name]
        rs, cs = self.blkshape[name]
        out = []
        for i, row in enumerate(rows):
            out.append([self.W[a] if a is not None else np.zeros((self.ndof[rs[i]], self.ndof[cs[j]])) for j, a in enumerate(row)])
        return np.block(out)

    def den(self, d):
        op = d[0]
        if op == "W":
            return self.W[d[1]]
        if op == "c":
            return self.c[d[1]]
        if op == "BW":
            return self.blockmat(d[1])
        if op == "cl":
            return np.concatenate([self.c[x] for x in self.gfl[d[1]]])
        if op == "scal":
            return self.scal[d[1]] * self.den(d[2])
        if op == "scalinv":
            return self.den(d[2]) / self.scal[d[1]]
        if op == "add":
            return self.den(d[1]) + self.den(d[2])
        if op == "mul":
            return self.den(d[1]).dot(self.den(d[2]))
        if op == "minv":
            return self.minv(d[1], d[2])
        if op == "bminv":
            import scipy.linalg

            return scipy.linalg.block_diag(*[self.minv(r, dd) for r, dd in zip(d[1], d[2])])
        if op == "ev":
            return self.evalpot(d[1], self.den(d[2]))
        raise KeyError(op)

    def evalpot(self, d, coeffs):
        op = d[0]
        if op == "P":
            sp = self.sp[self.potsp[d[1]]]
            return np.asarray(self.pot[d[1]].evaluate(self.api.GridFunction(sp, coefficients=coeffs)))
        if op == "scal":
            return self.scal[d[1]] * self.evalpot(d[2], coeffs)
        if op == "add":
            return self.evalpot(d[1], coeffs) + self.evalpot(d[2], coeffs)
        raise KeyError(op)


def close(a, b):
    a, b = np.asarray(a), np.asarray(b)
    if a.shape != b.shape:
        return False
    return float(np.abs(a - b).max()) <= TOL * max(1e-3, float(np.abs(b).max()))

"""Replay of SpaceModel obligations into the barycentric / dual-grid spaces
(DUAL0, DUAL1, BC, RBC): DOF counts, partition of unity, conformity (C09).
The pointwise nodal-value oracle of C10 lives in replay_bary.py.
"""

import numpy as np

from . import replay_space as rs

LOCAL_EDGE = rs.LOCAL_EDGE
REF = rs.REF


def bary_values(space, b, pts, D=None):
    """{dof: values(codim, npts)} of the global basis on barycentric element b."""
    D = space.dof_transformation.tocsr() if D is None else D
    vals = space.evaluate(int(b), np.asarray(pts, dtype=float))
    out = {}
    l2g = space.local2global
    for j in range(l2g.shape[1]):
        row = D.getrow(int(l2g[b, j]))
        for d, c in zip(row.indices, row.data):
            if c != 0:
                out[int(d)] = out.get(int(d), 0) + c * vals[:, j, :]
    return out


def selected(ob):
    if ob["mode"] == "seg":
        return [e for e in range(len(ob["el"])) if ob["dom"][e] in ob["segs"]]
    if ob["mode"] == "sup":
        return [e - 1 for e in ob["supp"]]
    return list(range(len(ob["el"])))


def check_bary_partition(space, coarse_elems, fail, name):
    pts = np.array([[0.0, 1.0, 0.0, 1 / 3.0], [0.0, 0.0, 1.0, 1 / 3.0]])
    D = space.dof_transformation.tocsr()
    for e in coarse_elems:
        for j in range(6):
            b = 6 * e + j
            if not space.support[b]:
                fail("partition_of_unity", "%s: barycentric element %d of selected element %d is outside the support" % (name, b, e))
                return
            tot = sum(v for v in bary_values(space, b, pts, D).values())
            if not (np.abs(np.asarray(tot) - 1).max() <= 1e-12):   # NaN counts as a deviation
                fail("partition_of_unity", "%s basis sums to %s on barycentric element %d (coarse %d)" % (name, np.round(np.asarray(tot).ravel(), 4), b, e))
                return


def check_bary_conformity(space, fail, name, kind):
    """Normal (BC) / tangential (RBC) continuity across barycentric edges inside the support."""
    g = space.grid
    sup = space.support
    nm = space.normal_multipliers
    D = space.dof_transformation.tocsr()
    V = g.vertices
    n = 0
    for ei in range(g.number_of_edges):
        nb = g.edge_neighbors[ei]
        if len(nb) != 2 or not (sup[nb[0]] and sup[nb[1]]):
            continue
        a, b = int(nb[0]), int(nb[1])
        u, w = int(g.edges[0, ei]), int(g.edges[1, ei])
        va = bary_values(space, a, rs.edge_points(g.elements[:, a], u, w), D)
        vb = bary_values(space, b, rs.edge_points(g.elements[:, b], u, w), D)
        t = V[:, w] - V[:, u]
        t = t / np.linalg.norm(t)
        for d in set(va) | set(vb):
            fa = va.get(d, np.zeros((3, 3)))
            fb = vb.get(d, np.zeros((3, 3)))
            if kind == "BC":
                ca = np.cross(t, g.normals[a])
                if np.dot(ca, V[:, u] - g.centroids[a]) < 0:
                    ca = -ca
                cb = np.cross(t, g.normals[b])
                if np.dot(cb, V[:, u] - g.centroids[b]) < 0:
                    cb = -cb
                jump = np.abs(ca.dot(fa) + cb.dot(fb)).max()
            else:
                if nm[a] != nm[b]:
                    continue
                jump = np.abs(t.dot(fa) - t.dot(fb)).max()
            n += 1
            if jump > 1e-9:
                fail("conformity_" + kind, "%s: basis function %d jumps by %.3g across barycentric edge (%d,%d)" % (name, d, jump, u, w))
                return n
    return n


def check_dual1_attachment(api, grid, ob, sp, S, fail):
    """The k-th DUAL1 function belongs to the k-th selected element: 1 at its barycentre, 0 at every other barycentre."""
    bg = sp.grid
    D = sp.dof_transformation.tocsr()
    cent = grid.centroids
    corner_pts = np.array([[0.0, 1.0, 0.0], [0.0, 0.0, 1.0]])
    for b in np.flatnonzero(sp.support):
        p = int(b) // 6
        vals = None
        for q in range(3):
            x = bg.vertices[:, bg.elements[q, b]]
            if np.abs(x - cent[p]).max() < 1e-12:
                vals = vals if vals is not None else bary_values(sp, int(b), corner_pts, D)
                for k, e in enumerate(S):
                    got = float(vals[k][0, q]) if k in vals else 0.0
                    want = 1.0 if e == p else 0.0
                    if not (abs(got - want) <= 1e-9):   # NaN counts as a deviation
                        fail("dual1_attachment", "DUAL1 dof %d (element %d of the selection) takes %.4g at the barycentre of element %d" % (k, e, got, p))
                        return


def check_dual_for_obligation(api, chk, ob, grid, sig_of):
    kind = ob["kind"]
    req = ob["req"]
    S = selected(ob)
    whole_closed = ob["mode"] == "all" and req["closed"]

    def mk_fail(k, sig, ob2=None):
        def fail(aspect, detail):
            chk.violation(rs.vkey(k, aspect, ob2 if k == "DUAL1" else ob), "%s on %s: %s" % (aspect, sig, detail),
                          {"obligation": {x: ob[x] for x in ob if x != "algo"}, "kind": k})
        return fail

    if kind == "P1":
        sig = sig_of(ob, "DUAL0")
        fail = mk_fail("DUAL0", sig)
        sp = rs.make_space(api, grid, ob, "DUAL0")
        chk.count(sig, len(req["support"]) >= 2)
        if sp.global_dof_count != req["ndofs"]:
            fail("dof_count", "DUAL0 has %d dofs, %d vertices selected" % (sp.global_dof_count, req["ndofs"]))
        if ob["ibd"] or whole_closed:
            check_bary_partition(sp, S, fail, "DUAL0")
    elif kind == "DP0":
        for trunc in (False, True):
            ob2 = dict(ob, trunc=trunc)
            sig = sig_of(ob2, "DUAL1")
            fail = mk_fail("DUAL1", sig, ob2)
            sp = rs.make_space(api, grid, ob2, "DUAL1")
            chk.count(sig, len(req["support"]) >= 2)
            if sp.global_dof_count != req["ndofs"]:
                fail("dof_count", "DUAL1 has %d dofs, %d elements selected" % (sp.global_dof_count, req["ndofs"]))
            if whole_closed:
                check_bary_partition(sp, S, fail, "DUAL1")
            check_dual1_attachment(api, grid, ob2, sp, S, fail)
    elif kind == "RWG" and req["manifold"]:
        for k in ("BC", "RBC"):
            sig = sig_of(ob, k)
            fail = mk_fail(k, sig)
            screen = not req["closed"]
            if screen and ob["ibd"]:
                try:
                    rs.make_space(api, grid, ob, k)
                    fail("screen_rejected", "%s with include_boundary_dofs on a screen must be rejected" % k)
                except ValueError:
                    pass
                continue
            if screen:
                continue  # BC/RBC on open surfaces without boundary dofs: outside the universe of this check
            try:
                sp = rs.make_space(api, grid, ob, k)
            except Exception as exc:
                if "connected only by a vertex" in str(exc):
                    # the selection is not edge-connected around some vertex: loudly rejected, not judged
                    chk.part("rejected_inputs", bc_vertex_connected_only=1)
                    continue
                raise
            chk.count(sig, len(req["support"]) >= 2)
            if sp.global_dof_count != req["ndofs"]:
                fail("dof_count", "%s has %d dofs, %d edges selected" % (k, sp.global_dof_count, req["ndofs"]))
            check_bary_conformity(sp, fail, k, k)
            # the same with the normals of one domain swapped (whole closed grids): every barycentric child carries the normal multiplier of its
            # parent element, and the space stays conforming (RBC: judged across edges between equally oriented elements)
            doms = sorted(set(int(x) for x in grid.domain_indices))
            if ob["mode"] == "all" and len(doms) > 1:
                try:
                    sps = rs.make_space(api, grid, ob, k, swapped=[doms[-1]])
                except Exception as exc:
                    if "connected only by a vertex" in str(exc):
                        chk.part("rejected_inputs", bc_swapped_vertex_connected_only=1)      # loudly rejected, not judged
                        continue
                    raise
                want = np.repeat(np.where(np.asarray(grid.domain_indices) == doms[-1], -1, 1), 6)
                if not np.array_equal(np.asarray(sps.normal_multipliers), want):
                    fail("normal_multipliers", "%s with swapped_normals=[%d]: the barycentric children do not carry the normal multipliers of their parents" % (k, doms[-1]))
                else:
                    check_bary_conformity(sps, fail, k + " swapped normals", k)

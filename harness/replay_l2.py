"""Binding (A)+(C) for C13: exact element matrices of L2Model replayed into the sparse operators and GridFunction."""

import numpy as np

KINDS = {"DP0": ("DP", 0, 1), "DP1": ("DP", 1, 3), "P1": ("P", 1, 3), "RWG": ("RWG", 0, 3), "SNC": ("SNC", 0, 3)}
SCALAR = ("DP0", "DP1", "P1")


class Mesh:
    def __init__(self, header):
        self.h = header
        self.id = header["id"]
        self.xyz = np.array(header["xyz"], dtype=float)
        self.el = np.array(header["el"], dtype=int) - 1
        self.dom = np.array(header["dom"], dtype=int)
        self.n = len(self.el)
        self.elem = {}

    def add(self, ob):
        self.elem[ob["e"] - 1] = ob

    def complete(self):
        return len(self.elem) == self.n

    def finish(self):
        self.J = np.array([np.sqrt(self.elem[e]["j2"]) for e in range(self.n)])
        self.l = np.array([np.sqrt(np.array(self.elem[e]["len2"], dtype=float)) for e in range(self.n)])

    def grid(self, api):
        return api.Grid(self.xyz.T.copy(), self.el.T.astype("uint32"), self.dom.astype("uint32"))

    def local(self, kt, ks, e):
        """Exact element matrix of int phi_i^test . phi_j^trial on element e (unit multipliers)."""
        d = self.elem[e]
        J, l = self.J[e], self.l[e]
        st, ss = kt in SCALAR, ks in SCALAR
        if st != ss:
            raise KeyError((kt, ks))
        if st:
            p1 = J * np.array(d["p1mass"], dtype=float) / 120.0
            if kt == "DP0" and ks == "DP0":
                return np.array([[J / 2.0]])
            if kt == "DP0":
                return p1.sum(axis=0, keepdims=True)
            if ks == "DP0":
                return p1.sum(axis=1, keepdims=True)
            return p1
        ll = np.outer(l, l)
        if kt == ks:
            return ll * np.array(d["rwg"], dtype=float) / (120.0 * J)
        if kt == "RWG":  # trial SNC = n x RWG
            return ll * np.array(d["rwgsnc"], dtype=float) / (120.0 * J * J)
        return ll * np.array(d["rwgsnc"], dtype=float).T / (120.0 * J * J)

    def lb(self, e):
        return np.array(self.elem[e]["lb"], dtype=float) / (2.0 * self.J[e])

    def block_diag(self, kt, ks, fn=None):
        nt, ns = KINDS[kt][2], KINDS[ks][2]
        B = np.zeros((nt * self.n, ns * self.n))
        for e in range(self.n):
            B[nt * e : nt * e + nt, ns * e : ns * e + ns] = fn(e) if fn else self.local(kt, ks, e)
        return B


def collect(obligations):
    ms = {}
    for ob in obligations:
        if ob["kind"] == "mesh":
            ms[ob["id"]] = Mesh(ob)
    for ob in obligations:
        if ob["kind"] == "element":
            ms[ob["id"]].add(ob)
    out = [m for m in ms.values() if m.complete()]
    for m in out:
        m.finish()
    return out


def make(api, grid, kind, **kw):
    k, deg, _ = KINDS[kind]
    return api.function_space(grid, k, deg, **kw)


def min_order(kt, ks):
    deg = {"DP0": 0, "DP1": 1, "P1": 1, "RWG": 1, "SNC": 1}
    return max(1, deg[kt] + deg[ks])


def rel(a, b, floor=1e-3):
    """max |a-b| relative to the largest expected modulus (floored: integer meshes give O(0.1..10) entries)."""
    if np.asarray(b).size == 0:
        return 0.0 if np.asarray(a).size == 0 else float("inf")
    s = max(floor, float(np.abs(b).max()))
    return float(np.abs(np.asarray(a) - np.asarray(b)).max()) / s

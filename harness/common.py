"""Shared machinery for the /verif checks.

* locating the repository under test (``VERIF_REPO``, default ``/repo``) and
  putting its *working tree* first on ``sys.path``;
* running TLC (model checking, simulation, trace validation) and parsing what
  it prints: state counts, per-action coverage, ``PrintT`` obligations, errors;
* writing the evidence file and reporting verdicts (``VIOLATION`` /
  ``KNOWN-FINDING`` lines, exit codes 0 / 1 / 2).
"""

import json
import os
import re
import shutil
import subprocess
import sys
import tempfile
import time

VERIF = os.path.dirname(os.path.dirname(os.path.abspath(__file__)))
SPEC = os.path.join(VERIF, "spec")
REPO = os.environ.get("VERIF_REPO", "/repo")
GUARD = "BEMPP_CL_VERIF"
TLA_JAR = "/opt/veriftools/tla/tla2tools.jar"
TLA_CP = TLA_JAR + ":/opt/veriftools/tla/CommunityModules-deps.jar"


class MachineryError(Exception):
    """Raised when the verification machinery itself fails (exit code 2)."""


def tier():
    t = os.environ.get("VERIF_TIER", "quick")
    for i, a in enumerate(sys.argv):
        if a == "--tier" and i + 1 < len(sys.argv):
            t = sys.argv[i + 1]
        elif a.startswith("--tier="):
            t = a.split("=", 1)[1]
    if t not in ("quick", "thorough"):
        raise MachineryError("unknown tier %r" % t)
    return t


def replay_request():
    """--replay <file>: re-run the check and report whether the violation recorded in <file> (by its key) occurs again.

    A replay run writes its evidence to a scratch directory (the evidence of the property is left alone), prints the recorded
    violation, then `REPLAY property=<id> key=<key> reproduced=yes|no` and exits 1 / 0."""
    for i, a in enumerate(sys.argv):
        if a == "--replay" and i + 1 < len(sys.argv):
            return sys.argv[i + 1]
        if a.startswith("--replay="):
            return a.split("=", 1)[1]
    return None


def seed():
    try:
        return int(os.environ.get("VERIF_SEED", "0"))
    except ValueError:
        return 0


def use_repo():
    """Make ``import bempp_cl`` resolve to the working tree of the repo under test."""
    os.environ.setdefault(GUARD, "1")
    os.environ.setdefault("PYTHONHASHSEED", "0")
    if REPO in sys.path:
        sys.path.remove(REPO)
    sys.path.insert(0, REPO)
    import bempp_cl  # noqa

    got = os.path.realpath(os.path.dirname(os.path.dirname(bempp_cl.__file__)))
    if got != os.path.realpath(REPO):
        raise MachineryError("bempp_cl imported from %s, expected %s" % (got, REPO))
    import bempp_cl.api as api

    api.enable_console_logging  # touch
    # the library creates an (empty) scratch directory under the system temp directory at import and never removes it: tidy up at exit
    try:
        import atexit
        import shutil

        tmp_path = getattr(api, "TMP_PATH", None)
        if tmp_path and os.path.basename(tmp_path).startswith("tmp") and os.path.dirname(tmp_path) in ("/tmp", os.environ.get("TMPDIR", "/tmp").rstrip("/")):
            atexit.register(lambda: shutil.rmtree(tmp_path, ignore_errors=True))
    except Exception:  # pragma: no cover
        pass
    # the meshes of the universes are tiny: many threads only add barrier latency (badly so on a loaded machine)
    try:
        import numba

        numba.set_num_threads(max(1, min(int(os.environ.get("VERIF_THREADS", "4")), numba.config.NUMBA_NUM_THREADS)))
    except Exception:  # pragma: no cover
        pass
    return api


# --------------------------------------------------------------------------- TLC


class TlcResult:
    def __init__(self):
        self.ok = False
        self.generated = 0
        self.distinct = 0
        self.depth = 0
        self.initial = 0
        self.obligations = []  # parsed JSON objects from PrintT("OBL {...}")
        self.printed = []  # other PrintT lines
        self.coverage = {}  # action name -> (distinct, total)
        self.error = None  # text of the first error block
        self.violated = None  # name of violated invariant / property
        self.trace = []  # counterexample states (raw text)
        self.raw = ""
        self.wall = 0.0
        self.cmd = ""

    @property
    def transitions(self):
        return max(self.generated - self.initial, 0)


_OBL = re.compile(r'^"(OBL|TRC|INFO) (.*)"$')


def _unquote(s):
    # TLC prints strings with \" and \\ escapes
    out = []
    i = 0
    while i < len(s):
        c = s[i]
        if c == "\\" and i + 1 < len(s):
            n = s[i + 1]
            if n == "n":
                out.append("\n")
            elif n == "t":
                out.append("\t")
            else:
                out.append(n)
            i += 2
        else:
            out.append(c)
            i += 1
    return "".join(out)


def run_tlc(
    module,
    cfg=None,
    spec_dir=SPEC,
    workers=16,
    timeout=1800,
    simulate=None,
    depth=None,
    coverage=True,
    env=None,
    extra=(),
    dfs=False,
    expect_error=False,
    heap="8g",
    include=(),
):
    """Run TLC on spec_dir/module.tla with config cfg (default module.cfg).

    Returns a TlcResult. Raises MachineryError on crashes / parse errors /
    timeouts. A property violation is *not* an exception: result.ok is False
    and result.violated names the invariant.
    """
    meta = tempfile.mkdtemp(prefix="tlc_meta_")
    cfg = cfg or (module + ".cfg")
    java = ["java", "-XX:+UseParallelGC", "-Xmx" + heap, "-Djava.io.tmpdir=" + meta]     # TLC's own scratch directories go into the metadir (removed below)
    if dfs:
        java.append("-Dtlc2.tool.queue.IStateQueue=StateDeque")
    cp = TLA_CP
    java += ["-cp", cp, "tlc2.TLC"]
    args = ["-metadir", meta, "-noGenerateSpecTE", "-config", cfg]
    if simulate:
        args += ["-simulate", simulate]
        if depth:
            args += ["-depth", str(depth)]
    if coverage and not simulate:
        args += ["-coverage", "1"]
    args += ["-workers", str(workers)]
    args += list(extra)
    args += [module + ".tla"]
    e = dict(os.environ)
    if env:
        e.update({k: str(v) for k, v in env.items()})
    res = TlcResult()
    res.cmd = "tlc " + " ".join(args[2:])
    t0 = time.time()
    try:
        p = subprocess.run(
            java + args, cwd=spec_dir, env=e, stdout=subprocess.PIPE, stderr=subprocess.STDOUT, timeout=timeout
        )
    except subprocess.TimeoutExpired:
        subprocess.run(["pkill", "-f", meta], check=False)
        shutil.rmtree(meta, ignore_errors=True)
        raise MachineryError("TLC timed out after %ss on %s/%s" % (timeout, module, cfg))
    finally:
        res.wall = time.time() - t0
    shutil.rmtree(meta, ignore_errors=True)
    out = p.stdout.decode("utf-8", "replace")
    res.raw = out
    _parse_tlc(out, res)
    if p.returncode == 0 and res.error is None:
        res.ok = True
    else:
        res.ok = False
        if res.violated is None and not expect_error:
            # parse error, evaluation error, assumption failure...
            tail = "\n".join(out.splitlines()[-40:])
            raise MachineryError("TLC failed on %s/%s (rc=%s):\n%s" % (module, cfg, p.returncode, tail))
    return res


def _parse_tlc(out, res):
    lines = out.splitlines()
    in_cov = False
    for i, ln in enumerate(lines):
        m = _OBL.match(ln)
        if m:
            kind, body = m.group(1), _unquote(m.group(2))
            if kind == "OBL":
                try:
                    res.obligations.append(json.loads(body))
                except ValueError as exc:
                    raise MachineryError("unparseable obligation: %s (%s)" % (body[:200], exc))
            else:
                res.printed.append((kind, body))
            continue
        m = re.match(r"^(\d+) states generated, (\d+) distinct states found", ln)
        if m:
            res.generated = int(m.group(1))
            res.distinct = int(m.group(2))
        m = re.match(r"^Finished computing initial states: (\d+) distinct state", ln)
        if m:
            res.initial = int(m.group(1))
        m = re.match(r"^The depth of the complete state graph search is (\d+)", ln)
        if m:
            res.depth = int(m.group(1))
        m = re.match(r"^Error: Invariant (\S+) is violated", ln)
        if m:
            res.violated = m.group(1)
            res.error = ln
        m = re.match(r"^Error: Action property (\S+) is violated", ln)
        if m:
            res.violated = m.group(1)
            res.error = ln
        m = re.match(r"^Error: Temporal properties were violated", ln)
        if m:
            res.violated = "temporal"
            res.error = ln
        if ln.startswith("Error:") and res.error is None:
            res.error = "\n".join(lines[i : i + 12])
            m2 = re.search(r"Assumption .* is false|Deadlock reached|postcondition|Postcondition", res.error)
            if m2:
                res.violated = m2.group(0)
        if ln.startswith("State ") and re.match(r"^State \d+:", ln):
            j = i + 1
            blk = [ln]
            while j < len(lines) and lines[j].strip() != "":
                blk.append(lines[j])
                j += 1
            res.trace.append("\n".join(blk))
        # coverage: "<Name line 12, col 1 to line 14, col 20 of module M>: 3:10"
        m = re.match(r"^<(\w+) line \d+, col \d+ to line \d+, col \d+ of module (\w+)>: (\d+):(\d+)", ln)
        if m:
            name = m.group(1)
            d, t = int(m.group(3)), int(m.group(4))
            old = res.coverage.get(name, (0, 0))
            res.coverage[name] = (max(old[0], d), max(old[1], t))
    # simulation mode prints different statistics
    m = re.search(r"(\d+) states checked", out)
    if m and not res.generated:
        res.generated = int(m.group(1))
        res.distinct = res.generated


def sany(module, spec_dir=SPEC):
    p = subprocess.run(
        ["java", "-cp", TLA_CP, "tla2sany.SANY", module + ".tla"],
        cwd=spec_dir,
        stdout=subprocess.PIPE,
        stderr=subprocess.STDOUT,
    )
    out = p.stdout.decode()
    ok = p.returncode == 0 and "error" not in out.lower().replace("errors: 0", "")
    return ok, out


def tla_seq(xs):
    return "<<" + ", ".join(tla(x) for x in xs) + ">>"


def tla(x):
    """Render a Python value as a TLA+ literal (ints, strs, bools, lists → tuples, sets, dicts → records)."""
    if isinstance(x, bool):
        return "TRUE" if x else "FALSE"
    if isinstance(x, int):
        return str(x)
    if isinstance(x, str):
        return '"' + x.replace("\\", "\\\\").replace('"', '\\"') + '"'
    if isinstance(x, (list, tuple)):
        return tla_seq(x)
    if isinstance(x, (set, frozenset)):
        return "{" + ", ".join(tla(v) for v in sorted(x, key=repr)) + "}"
    if isinstance(x, dict):
        if not x:
            return "<<>>"
        return "[" + ", ".join("%s |-> %s" % (k, tla(v)) for k, v in x.items()) + "]"
    raise TypeError(type(x))


# --------------------------------------------------------------------------- verdicts / evidence


class Check:
    """Collects what a check covered and what it found; writes the evidence file."""

    def __init__(self, pid, level):
        self.pid = pid
        self.level = level
        self.tier = tier()
        self.seed = seed()
        self.t0 = time.time()
        self.cov = {
            "states": 0,
            "transitions": 0,
            "traces_validated_against_impl": 0,
            "evaluations": 0,
            "distinct_nontrivial": 0,
            "obligations_replayed": 0,
            "samples": [],
            "rule": "",
            "tlc_runs": [],
            "parts": {},
        }
        self.assumptions = []
        self.violations = []  # (key, description, replay object)
        self.known = []
        self.drift = []
        self._distinct = set()
        from . import findings

        self.findings = findings.load()
        self.replay = None
        rp = replay_request()
        if rp:
            with open(rp) as f:
                self.replay = json.load(f)
            if self.replay.get("property") != pid:
                raise MachineryError("replay file %s belongs to property %s" % (rp, self.replay.get("property")))
            import tempfile

            os.environ["VERIF_EVIDENCE_DIR"] = tempfile.mkdtemp(prefix="replay_%s_" % pid)
            print("REPLAYING property=%s key=%s\n  %s" % (pid, self.replay.get("key"), str(self.replay.get("description"))[:300]))

    # -- coverage ---------------------------------------------------------
    def add_tlc(self, name, res, note=""):
        self.cov["states"] += res.distinct
        self.cov["transitions"] += res.transitions
        self.cov["tlc_runs"].append(
            {
                "name": name,
                "cmd": res.cmd,
                "states_generated": res.generated,
                "distinct_states": res.distinct,
                "depth": res.depth,
                "wall_s": round(res.wall, 2),
                "ok": res.ok,
                "violated": res.violated,
                "actions": {k: list(v) for k, v in sorted(res.coverage.items())[:60]},
                "note": note,
            }
        )

    def require_coverage(self, res, actions):
        """Fail as *vacuous* (machinery error) if an action was never taken."""
        for a in actions:
            if res.coverage.get(a, (0, 0))[1] == 0:
                raise MachineryError("vacuous TLC run: action %s never taken (%s)" % (a, res.cmd))

    def count(self, key=None, nontrivial=True, n=1):
        self.cov["evaluations"] += n
        if nontrivial and key is not None:
            if key not in self._distinct:
                self._distinct.add(key)
                self.cov["distinct_nontrivial"] += 1

    def part(self, name, **kw):
        d = self.cov["parts"].setdefault(name, {})
        for k, v in kw.items():
            if isinstance(v, (int, float)) and not isinstance(v, bool) and isinstance(d.get(k), (int, float)):
                d[k] += v
            else:
                d[k] = v

    def sample(self, obj, limit=5):
        if len(self.cov["samples"]) < limit:
            self.cov["samples"].append(_jsonable(obj))

    def assume(self, *texts):
        for t in texts:
            if t not in self.assumptions:
                self.assumptions.append(t)

    # -- verdicts ---------------------------------------------------------
    def violation(self, key, description, replay=None):
        """Record a violation; `key` identifies input / call site for known_findings."""
        from . import findings

        f = findings.match(self.findings, self.pid, key)
        if f is not None and f.get("status") == "open":
            if key not in [k for k, _ in self.known]:
                self.known.append((key, f.get("what", description)))
            return False
        self._nviol = getattr(self, "_nviol", 0) + 1
        per_key = sum(1 for k, _, _ in self.violations if k == key)
        if per_key < 3 and len(self.violations) < 90:
            self.violations.append((key, description, _jsonable(replay)))
        return True

    def model_drift(self, text):
        self.drift.append(text)
        sys.stderr.write("MODEL-DRIFT %s: %s\n" % (self.pid, text))

    def finish(self):
        wall = time.time() - self.t0
        evdir = os.environ.get("VERIF_EVIDENCE_DIR", os.path.join(VERIF, "evidence"))
        os.makedirs(evdir, exist_ok=True)
        rdir = os.path.join(evdir, "replay")
        cov = self.cov
        if not cov["samples"]:
            cov["samples"] = ["(no obligations were generated)"]
        cov["known_findings_hit"] = [k for k, _ in self.known]
        cov["model_drift"] = self.drift
        ev = {
            "property_id": self.pid,
            "tier": self.tier,
            "seed": self.seed,
            "level": self.level,
            "coverage": cov,
            "assumptions": self.assumptions,
            "wall_s": round(wall, 2),
            "violations": getattr(self, "_nviol", 0),
        }
        with open(os.path.join(evdir, self.pid + ".json"), "w") as f:
            json.dump(ev, f, indent=1, sort_keys=True)
            f.write("\n")
        if os.path.isdir(rdir):
            for fn in os.listdir(rdir):
                if fn.startswith(self.pid + "-"):
                    os.remove(os.path.join(rdir, fn))
        if self.replay is not None:
            again = [v for v in self.violations if v[0] == self.replay.get("key")]
            for key, desc, rep in again[:3]:
                print("  key=%s  %s" % (key, desc))
            print("REPLAY property=%s key=%s reproduced=%s" % (self.pid, self.replay.get("key"), "yes" if again else "no"))
            import shutil

            shutil.rmtree(evdir, ignore_errors=True)
            return 1 if again else 0
        for key, what in self.known:
            print("KNOWN-FINDING: property=%s %s [%s]" % (self.pid, what, key))
        if self.violations:
            os.makedirs(rdir, exist_ok=True)
            for n, (key, desc, rep) in enumerate(self.violations):
                path = os.path.join(rdir, "%s-%03d.json" % (self.pid, n))
                with open(path, "w") as f:
                    json.dump({"property": self.pid, "key": key, "description": desc, "replay": rep}, f, indent=1)
                print("VIOLATION property=%s replay=%s" % (self.pid, path))
                print("  key=%s  %s" % (key, desc))
            sys.stdout.flush()
            return 1
        print(
            "OK property=%s tier=%s states=%d transitions=%d obligations=%d traces=%d wall=%.1fs"
            % (
                self.pid,
                self.tier,
                cov["states"],
                cov["transitions"],
                cov["obligations_replayed"],
                cov["traces_validated_against_impl"],
                wall,
            )
        )
        return 0


def _jsonable(o):
    try:
        import numpy as np
    except ImportError:  # pragma: no cover
        np = None
    if o is None or isinstance(o, (bool, int, float, str)):
        return o
    if np is not None:
        if isinstance(o, np.generic):
            if isinstance(o, np.complexfloating):
                return [float(o.real), float(o.imag)]
            return o.item()
        if isinstance(o, np.ndarray):
            return _jsonable(o.tolist())
    if isinstance(o, complex):
        return [o.real, o.imag]
    if isinstance(o, dict):
        return {str(k): _jsonable(v) for k, v in o.items()}
    if isinstance(o, (list, tuple, set, frozenset)):
        return [_jsonable(v) for v in o]
    return repr(o)


def main(fn):
    """Run a check body with total verdicts: 0 held, 1 violation, 2 machinery failure."""
    try:
        rc = fn()
    except MachineryError as exc:
        sys.stderr.write("MACHINERY-FAILURE: %s\n" % exc)
        sys.exit(2)
    except Exception:  # noqa
        import traceback

        traceback.print_exc()
        sys.stderr.write("MACHINERY-FAILURE: unexpected exception in check\n")
        sys.exit(2)
    sys.exit(rc)

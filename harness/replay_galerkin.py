"""Binding (A)+(C): exact Galerkin obligations of GalerkinModel replayed through the public API.

`Surface` wraps one surface obligation (header + one row block per test element) and
turns the integer numerators into floating matrices:  entry = scale * N / 14400 with
scale built from J = sqrt(j2) (the only irrational numbers involved).
"""

import numpy as np

DEN = 14400.0


class Surface:
    def __init__(self, header):
        self.h = header
        self.id = header["id"]
        self.xyz = np.array(header["xyz"], dtype=float)
        self.el = np.array(header["el"], dtype=int) - 1
        self.n = len(self.el)
        self.J = np.sqrt(np.array(header["j2"], dtype=float))
        self.cross = np.array(header["cross"], dtype=float)
        self.rows = {}

    def add_row(self, r):
        self.rows[r["t"] - 1] = r

    def complete(self):
        return len(self.rows) == self.n

    def grid(self, api, dom=None, shift=None, scale=1.0):
        v = self.xyz.T.copy() * scale
        if shift is not None:
            v = v + np.asarray(shift, dtype=float).reshape(3, 1)
        return api.Grid(v, self.el.T.astype("uint32"), None if dom is None else np.asarray(dom, dtype="uint32"))

    def block(self, key):
        """4-d array B[t, i, s, j] of integer numerators."""
        B = np.zeros((self.n, 3, self.n, 3))
        for t in range(self.n):
            B[t] = np.transpose(np.array(self.rows[t][key], dtype=float), (1, 0, 2))  # rows[key][s][i][j] -> [i, s, j]
        return B

    def local(self, kernel, nmT=None, nmS=None):
        """L[t,i,s,j] = int_t int_s lambda_i lambda_j K for the probe kernels r2, dl, adl, one and hyp_r2."""
        J = self.J
        nmT = np.ones(self.n) if nmT is None else np.asarray(nmT, dtype=float)
        nmS = np.ones(self.n) if nmS is None else np.asarray(nmS, dtype=float)
        if kernel == "r2":
            return self.block("r2") * J[:, None, None, None] * J[None, None, :, None] / DEN
        if kernel == "one":
            return np.full((self.n, 3, self.n, 3), 400.0) * J[:, None, None, None] * J[None, None, :, None] / DEN
        if kernel == "dl":
            return self.block("dl") * J[:, None, None, None] * nmS[None, None, :, None] / DEN
        if kernel == "adl":
            return self.block("adl") * J[None, None, :, None] * nmT[:, None, None, None] / DEN
        if kernel == "hyp_r2":
            G = self.block("r2").sum(axis=(1, 3))  # P0 x P0 numerators
            E = self.block("edots")
            return E * G[:, None, :, None] / DEN * nmT[:, None, None, None] * nmS[None, None, :, None]
        raise KeyError(kernel)


def collect(obligations):
    surf = {}
    for ob in obligations:
        if ob["kind"] == "surface":
            surf[ob["id"]] = Surface(ob)
    for ob in obligations:
        if ob["kind"] == "row":
            surf[ob["id"]].add_row(ob)
    return [s for s in surf.values() if s.complete()]


# ---- entity-indexed expected matrices -------------------------------------------------

def entity_map(space, kind, el):
    """impl dof -> entity index (DP0: element, DP1: 3*element+local, P1: vertex); entities over the whole grid."""
    l2g = space.local2global
    m = space.local_multipliers
    ent = -np.ones(space.global_dof_count, dtype=int)
    for e in np.flatnonzero(space.support):
        for i in range(l2g.shape[1]):
            if m[e, i] != 0:
                d = int(l2g[e, i])
                x = int(e) if kind == "DP0" else (3 * int(e) + i if kind == "DP1" else int(el[e, i]))
                if ent[d] not in (-1, x):
                    raise ValueError("dof %d attached to two entities" % d)
                ent[d] = x
    return ent


def slots(kind, el, sup):
    """entity index -> list of (element, local index or None, weight)."""
    out = {}
    for e in sup:
        if kind == "DP0":
            out.setdefault(e, []).append((e, None))
        elif kind == "DP1":
            for i in range(3):
                out.setdefault(3 * e + i, []).append((e, i))
        else:
            for i in range(3):
                out.setdefault(int(el[e, i]), []).append((e, i))
    return out


def expected(L, el, kindT, kindS, supT=None, supS=None):
    """Dict {(entT, entS): value} of the Galerkin matrix for whole-support spaces (no truncation subtleties)."""
    n = len(el)
    supT = range(n) if supT is None else supT
    supS = range(n) if supS is None else supS
    sT, sS = slots(kindT, el, supT), slots(kindS, el, supS)
    # contract local indices first
    LT = {}
    for a, sl in sT.items():
        acc = np.zeros((n, 3))
        for e, i in sl:
            acc += L[e].sum(axis=0) if i is None else L[e, i]
        LT[a] = acc
    E = {}
    for a, acc in LT.items():
        for b, sl in sS.items():
            v = 0.0
            for e, j in sl:
                v += acc[e].sum() if j is None else acc[e, j]
            E[(a, b)] = v
    return E


def compare(A, entT, entS, E, tol):
    """max abs deviation / scale, and whether the impl dofs are exactly the expected entities."""
    rows = sorted(set(a for a, _ in E))
    cols = sorted(set(b for _, b in E))
    if sorted(entT.tolist()) != rows or sorted(entS.tolist()) != cols:
        return None, "dofs of the implementation do not correspond to the expected entities"
    W = np.array([[E[(a, b)] for b in entS] for a in entT])
    scale = max(1e-300, np.abs(W).max())
    err = np.abs(np.asarray(A) - W).max() / scale
    return err, None

"""Polynomial probe kernels (binding A + C).

The Green's functions in bempp_cl.core.numba_kernels are looked up by name in the
module namespace every time an operator is assembled.  Replacing e.g.
`laplace_single_layer_{regular,singular}` by the polynomial kernel |x-y|^2 and then
assembling through the *public* API runs the whole pipeline (adjacency, singular
plan, offsets, Duffy rules, colour batches, scatter, dof maps) on an integrand whose
Galerkin integrals are rational numbers that spec/GalerkinExact.tla computes exactly.
"""

import contextlib

import numba
import numpy as np

_OPTS = dict(nopython=True, parallel=False, error_model="numpy", fastmath=False, boundscheck=False)


@numba.jit(**_OPTS)
def r2_regular(test_point, trial_points, test_normal, trial_normals, kernel_parameters):
    npoints = trial_points.shape[1]
    output = np.zeros(npoints, dtype=trial_points.dtype)
    for i in range(3):
        for j in range(npoints):
            output[j] += (trial_points[i, j] - test_point[i]) ** 2
    return output


@numba.jit(**_OPTS)
def r2_singular(test_points, trial_points, test_normal, trial_normal, kernel_parameters):
    npoints = trial_points.shape[1]
    output = np.zeros(npoints, dtype=trial_points.dtype)
    for i in range(3):
        for j in range(npoints):
            output[j] += (trial_points[i, j] - test_points[i, j]) ** 2
    return output


@numba.jit(**_OPTS)
def dl_regular(test_point, trial_points, test_normal, trial_normals, kernel_parameters):
    npoints = trial_points.shape[1]
    output = np.zeros(npoints, dtype=trial_points.dtype)
    for i in range(3):
        for j in range(npoints):
            output[j] += (test_point[i] - trial_points[i, j]) * trial_normals[i, j]
    return output


@numba.jit(**_OPTS)
def dl_singular(test_points, trial_points, test_normal, trial_normal, kernel_parameters):
    npoints = trial_points.shape[1]
    output = np.zeros(npoints, dtype=trial_points.dtype)
    for i in range(3):
        for j in range(npoints):
            output[j] += (test_points[i, j] - trial_points[i, j]) * trial_normal[i]
    return output


@numba.jit(**_OPTS)
def adl_regular(test_point, trial_points, test_normal, trial_normals, kernel_parameters):
    npoints = trial_points.shape[1]
    output = np.zeros(npoints, dtype=trial_points.dtype)
    for i in range(3):
        for j in range(npoints):
            output[j] += (trial_points[i, j] - test_point[i]) * test_normal[i]
    return output


@numba.jit(**_OPTS)
def adl_singular(test_points, trial_points, test_normal, trial_normal, kernel_parameters):
    npoints = trial_points.shape[1]
    output = np.zeros(npoints, dtype=trial_points.dtype)
    for i in range(3):
        for j in range(npoints):
            output[j] += (trial_points[i, j] - test_points[i, j]) * test_normal[i]
    return output


PROBES = {
    "r2": ("laplace_single_layer", r2_regular, r2_singular),
    "dl": ("laplace_double_layer", dl_regular, dl_singular),
    "adl": ("laplace_adjoint_double_layer", adl_regular, adl_singular),
}


@contextlib.contextmanager
def installed(*names):
    """Install the named probes in place of the Laplace kernels of the same slot."""
    import bempp_cl.core.numba_kernels as nk

    saved = {}
    try:
        for n in names or PROBES:
            slot, reg, sing = PROBES[n]
            for suffix, fn in (("_regular", reg), ("_singular", sing)):
                saved[slot + suffix] = getattr(nk, slot + suffix)
                setattr(nk, slot + suffix, fn)
        yield
    finally:
        for k, v in saved.items():
            setattr(nk, k, v)

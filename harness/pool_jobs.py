"""Functions executed inside the workers of bempp_cl.api.utils.pool by checks/ext_pool.py (must be importable by name)."""


def job_map(arg):
    from bempp_cl.api.utils import pool

    return [pool.get_id(), arg[0], arg[1]]


def job_star(call, index):
    from bempp_cl.api.utils import pool

    return [pool.get_id(), call, index]


def job_noargs():
    from bempp_cl.api.utils import pool

    return [pool.get_id(), pool.nworkers(), pool.is_worker()]


def job_fail(arg):
    if arg[1] == 1:
        raise RuntimeError("seeded failure in worker 1")
    return job_map(arg)


def job_store(key, value):
    from bempp_cl.api.utils import pool

    pool.insert_data(key, value)
    return pool.has_key(key)


def job_load(key):
    from bempp_cl.api.utils import pool

    return [pool.get_id(), pool.has_key(key), pool.get_data(key) if pool.has_key(key) else None]


def job_read_buffer(layout):
    """Checksums of the arrays the host placed in the shared buffer."""
    from bempp_cl.api.utils import pool
    import numpy as np

    arrays = pool.from_buffer(layout)
    return [pool.get_id()] + [[str(a.dtype), list(a.shape), complex(np.sum(a * np.arange(1, a.size + 1).reshape(a.shape))).real,
                               complex(np.sum(a * np.arange(1, a.size + 1).reshape(a.shape))).imag] for a in arrays]

"""A stand-in for the `exafmm` package implementing the backend contract of spec/FmmGlue.tla by direct summation.

Contract (per kernel module laplace / helmholtz / modified_helmholtz):
  init_sources(points (N,3), charges (N,)) -> sources        init_targets(points (M,3)) -> targets
  <Kernel>Fmm(expansion_order, ncrit, [wavenumber,] filename=...) -> fmm
  setup(sources, targets, fmm) -> tree
  update_charges(tree, charges)      clear_values(tree)
  evaluate(tree, fmm) -> (M, 4) array:  column 0 = sum_j q_j G(x_i, y_j),  columns 1..3 = sum_j q_j grad_x G(x_i, y_j),
                         pairs with x_i == y_j contribute nothing
with G = 1/(4 pi r), exp(i k r)/(4 pi r), exp(-w r)/(4 pi r).  An exact far-field evaluator in the sense of property C17.
Every call is appended to CALLS so that the order of calls can be validated against the protocol of FmmGlue.tla.
"""

import sys
import types

import numpy as np

CALLS = []  # (tree id or 0, call name)
_NEXT = [0]


class _Tree:
    def __init__(self, src, q, trg, mode, k):
        _NEXT[0] += 1
        self.id = _NEXT[0]
        self.src, self.q, self.trg, self.mode, self.k = np.array(src, dtype=float), np.array(q), np.array(trg, dtype=float), mode, k
        self.values = None


class _Fmm:
    def __init__(self, mode, p, ncrit, k=None, filename=None):
        self.mode, self.p, self.ncrit, self.k, self.filename = mode, p, ncrit, k, filename


def _evaluate(tree):
    d = tree.trg[:, None, :] - tree.src[None, :, :]          # x_i - y_j
    r = np.linalg.norm(d, axis=2)
    mask = r > 0
    rs = np.where(mask, r, 1.0)
    if tree.mode == "laplace":
        g = 1.0 / (4 * np.pi * rs)
        dg = -1.0 / (4 * np.pi * rs**3)                        # grad_x G = dg * (x - y)
    elif tree.mode == "helmholtz":
        k = complex(tree.k)
        g = np.exp(1j * k * rs) / (4 * np.pi * rs)
        dg = (1j * k * rs - 1.0) * np.exp(1j * k * rs) / (4 * np.pi * rs**3)
    else:
        w = float(np.real(tree.k))
        g = np.exp(-w * rs) / (4 * np.pi * rs)
        dg = -(w * rs + 1.0) * np.exp(-w * rs) / (4 * np.pi * rs**3)
    g = np.where(mask, g, 0.0)
    dg = np.where(mask, dg, 0.0)
    q = tree.q
    out = np.zeros((len(tree.trg), 4), dtype=np.result_type(g.dtype, q.dtype))
    out[:, 0] = g.dot(q)
    for c in range(3):
        out[:, 1 + c] = (dg * d[:, :, c]).dot(q)
    return out


def _module(mode):
    m = types.ModuleType("exafmm." + mode)

    def init_sources(points, charges):
        CALLS.append((0, "init_sources"))
        return (np.array(points, dtype=float), np.array(charges))

    def init_targets(points):
        CALLS.append((0, "init_targets"))
        return np.array(points, dtype=float)

    def setup(sources, targets, fmm):
        t = _Tree(sources[0], sources[1], targets, mode, fmm.k)
        CALLS.append((t.id, "setup"))
        return t

    def update_charges(tree, charges):
        CALLS.append((tree.id, "update_charges"))
        tree.q = np.array(charges)

    def clear_values(tree):
        CALLS.append((tree.id, "clear_values"))
        tree.values = None

    def evaluate(tree, fmm):
        CALLS.append((tree.id, "evaluate"))
        tree.values = _evaluate(tree)
        return tree.values

    m.init_sources, m.init_targets, m.setup = init_sources, init_targets, setup
    m.update_charges, m.clear_values, m.evaluate = update_charges, clear_values, evaluate
    if mode == "laplace":
        m.LaplaceFmm = lambda p, ncrit, filename=None: _Fmm(mode, p, ncrit, None, filename)
    elif mode == "helmholtz":
        m.HelmholtzFmm = lambda p, ncrit, wavenumber, filename=None: _Fmm(mode, p, ncrit, wavenumber, filename)
    else:
        m.ModifiedHelmholtzFmm = lambda p, ncrit, wavenumber, filename=None: _Fmm(mode, p, ncrit, wavenumber, filename)
    return m


def install():
    pkg = types.ModuleType("exafmm")
    pkg.__path__ = []
    for mode in ("laplace", "helmholtz", "modified_helmholtz"):
        sub = _module(mode)
        setattr(pkg, mode, sub)
        sys.modules["exafmm." + mode] = sub
    sys.modules["exafmm"] = pkg
    return pkg

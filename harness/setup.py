"""MANIFEST.setup_cmd: parse every specification with SANY, byte-compile the harness. Offline."""
import glob, os, subprocess, sys, py_compile

VERIF = os.path.dirname(os.path.dirname(os.path.abspath(__file__)))
sys.path.insert(0, VERIF)
from harness import common

def main():
    bad = 0
    mods = sorted(glob.glob(os.path.join(VERIF, "spec", "*.tla")))
    from concurrent.futures import ThreadPoolExecutor
    def one(p):
        return p, common.sany(os.path.basename(p)[:-4])
    with ThreadPoolExecutor(8) as ex:
        for p, (ok, out) in ex.map(one, mods):
            if not ok:
                bad += 1
                print("SANY FAILED", p)
                print(out[-2000:])
    for p in glob.glob(os.path.join(VERIF, "harness", "*.py")) + glob.glob(os.path.join(VERIF, "checks", "*.py")):
        try:
            compile(open(p).read(), p, "exec")
        except SyntaxError as exc:
            bad += 1
            print(exc)
    os.makedirs(os.path.join(VERIF, "evidence"), exist_ok=True)
    print("setup: %d spec modules parsed, %d problems" % (len(mods), bad))
    sys.exit(1 if bad else 0)

main()

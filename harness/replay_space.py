"""Binding (A) for C09 / C16-colouring: replay SpaceModel obligations into function_space().

Oracle = the "req" part of the obligation (Spaces.tla): DOF entities, attachment
slots, support.  Everything is compared up to a bijection of DOF numbers.
"""

import numpy as np

from . import replay_grid

KIND = {"DP0": ("DP", 0), "DP1": ("DP", 1), "P1": ("P", 1), "RWG": ("RWG", 0), "SNC": ("SNC", 0),
        "DUAL0": ("DUAL", 0), "DUAL1": ("DUAL", 1), "BC": ("BC", 0), "RBC": ("RBC", 0)}
LOCAL_EDGE = [(0, 1), (2, 0), (1, 2)]
REF = np.array([[0.0, 0.0], [1.0, 0.0], [0.0, 1.0]])  # local coordinates of local vertices 0,1,2
TOL = 1e-10


def vkey(kind, aspect, ob, trunc=None):
    """Violation key = kind, aspect and input class (whole grid / part of it, option pair)."""
    return "%s:%s:%s:ibd%d:tr%d" % (kind, aspect, "all" if ob["mode"] == "all" else "part", ob["ibd"],
                                    ob["trunc"] if trunc is None else trunc)


def space_kwargs(ob, swapped=None):
    kw = {}
    if ob["mode"] == "seg":
        kw["segments"] = list(ob["segs"])
    elif ob["mode"] == "sup":
        kw["support_elements"] = np.array([e - 1 for e in ob["supp"]], dtype="uint32")
    if ob["kind"] not in ("DP0", "DP1"):
        kw["include_boundary_dofs"] = bool(ob["ibd"])
        kw["truncate_at_segment_edge"] = bool(ob["trunc"])
    if swapped:
        kw["swapped_normals"] = list(swapped)
    return kw


def make_space(api, grid, ob, kind=None, swapped=None):
    k, deg = KIND[kind or ob["kind"]]
    kw = space_kwargs(ob, swapped)
    if (kind or ob["kind"]) in ("DUAL1",):
        kw.pop("include_boundary_dofs", None)
    return api.function_space(grid, k, deg, **kw)


def slots_of(space):
    """dof -> frozenset of (element+1, local+1) over non-zero multipliers, from local2global."""
    l2g = space.local2global
    m = space.local_multipliers
    out = {}
    for e in np.flatnonzero(space.support):
        for i in range(l2g.shape[1]):
            if m[e, i] != 0:
                out.setdefault(int(l2g[e, i]), set()).add((int(e) + 1, i + 1))
    return {d: frozenset(s) for d, s in out.items()}


def check_direct_space(api, ob, grid, space, fail, drift, kind=None):
    """DP0 / DP1 / P1 / RWG / SNC on the coarse grid."""
    kind = kind or ob["kind"]
    req = ob["req"]
    ne = len(ob["el"])
    sup = [int(e) + 1 for e in np.flatnonzero(space.support)]
    if sup != req["support"]:
        fail("support", "support %s, required %s" % (sup, req["support"]))
        return
    if [int(e) + 1 for e in space.support_elements] != sup or space.number_of_support_elements != len(sup):
        fail("support", "support_elements / number_of_support_elements inconsistent with support")
    if space.global_dof_count != req["ndofs"]:
        fail("dof_count", "global_dof_count %d, required %d entities" % (space.global_dof_count, req["ndofs"]))
        return
    if space.grid_dof_count != req["ndofs"]:
        fail("dof_count", "grid_dof_count %d != %d" % (space.grid_dof_count, req["ndofs"]))
    want = {}
    for ent, assoc in req["dofs"]:
        want[frozenset((a, b) for a, b in assoc)] = tuple(ent)
    got = slots_of(space)
    if set(got.values()) != set(want.keys()) or len(got) != len(want):
        extra = [sorted(s) for s in set(got.values()) - set(want.keys())][:3]
        miss = [(want[s], sorted(s)) for s in set(want.keys()) - set(got.values())][:3]
        fail("dof_entities", "DOF attachment differs: unexpected slot sets %s; entities without DOF %s" % (extra, miss))
        return
    if sorted(got.keys()) != list(range(req["ndofs"])):
        fail("dof_numbering", "global DOF numbers are not 0..n-1: %s" % sorted(got.keys())[:10])
    # global2local is the inverse of local2global on non-zero multipliers
    g2l = space.global2local
    if len(g2l) != req["ndofs"]:
        fail("global2local", "global2local has %d entries for %d dofs" % (len(g2l), req["ndofs"]))
    else:
        for d in range(req["ndofs"]):
            s = frozenset((int(a) + 1, int(b) + 1) for a, b in g2l[d])
            if s != got[d] or len(g2l[d]) != len(s):
                fail("global2local", "global2local[%d]=%s but local2global gives %s" % (d, sorted(s), sorted(got[d])))
                break
    m = space.local_multipliers
    l2g = space.local2global
    # multipliers outside the support vanish; signs
    for e in range(ne):
        if not space.support[e] and np.any(m[e] != 0):
            fail("multipliers", "non-zero multiplier outside the support (element %d)" % e)
    if kind in ("RWG", "SNC"):
        for d, s in got.items():
            vals = sorted(float(m[a - 1, b - 1]) for a, b in s)
            if (len(s) == 1 and vals != [1.0]) or (len(s) == 2 and vals != [-1.0, 1.0]) or len(s) > 2:
                fail("rwg_signs", "edge DOF %d has multipliers %s on slots %s" % (d, vals, sorted(s)))
    else:
        if not np.all((m == 0) | (m == 1)):
            fail("multipliers", "scalar space with multipliers other than 0/1")
    # zero-multiplier slots alias a DOF that is real in the same element
    for e in np.flatnonzero(space.support):
        real = set(int(l2g[e, i]) for i in range(l2g.shape[1]) if m[e, i] != 0)
        if not set(int(x) for x in l2g[e]) <= real:
            fail("artificial_alias", "element %d: slots %s, real dofs %s" % (e, l2g[e].tolist(), sorted(real)))
    check_colouring(space, fail)
    # sparse maps
    nsh = l2g.shape[1]
    T = space.map_to_full_grid.toarray()
    Tw = np.zeros((nsh * ne, req["ndofs"]))
    for e in np.flatnonzero(space.support):
        for i in range(nsh):
            Tw[nsh * e + i, l2g[e, i]] += m[e, i]
    if T.shape != Tw.shape or np.abs(T - Tw).max() > 0:
        fail("map_to_full_grid", "map_to_full_grid is not the (element, local) <- dof incidence with multipliers")
    L = space.map_to_localised_space.toarray()
    rows = [nsh * int(e) + i for e in np.flatnonzero(space.support) for i in range(nsh)]
    if L.shape[0] != len(rows) or np.abs(L - Tw[rows]).max() > 0:
        fail("map_to_localised_space", "map_to_localised_space differs from the support rows of map_to_full_grid")
    # model drift: exact numbering predicted by the algorithm module
    algo = ob.get("algo")
    if algo is not None and kind == ob["kind"]:
        al = np.array(algo["l2g"]) - 1
        am = np.array(algo["mult"])
        supmask = space.support
        if not np.array_equal(al[supmask], l2g[supmask]) or not np.array_equal(am, m.astype(int)):
            drift("local2global / multipliers numbered differently from SpaceModel (%s)" % kind)
        elif not np.array_equal(np.array(algo["col"])[supmask] - 1, space.color_map[supmask]):
            drift("colour map differs from SpaceModel.ColourStep (greedy order)")


def check_colouring(space, fail):
    l2g = space.local2global
    cm = space.color_map
    sup = np.flatnonzero(space.support)
    if np.any(cm[sup] < 0):
        fail("colouring", "support element without colour")
        return
    users = {}
    for e in sup:
        for d in set(int(x) for x in l2g[e]):
            users.setdefault(d, []).append(int(e))
    for d, es in users.items():
        cols = [int(cm[e]) for e in es]
        if len(set(cols)) != len(cols):
            fail("colouring", "elements %s share global dof %d but colours are %s" % (es, d, cols))
            return
    idx, ptr = space.get_elements_by_color()
    seen = []
    for c in range(len(ptr) - 1):
        batch = [int(x) for x in idx[ptr[c] : ptr[c + 1]]]
        if any(cm[e] != c for e in batch):
            fail("colouring", "get_elements_by_color batch %d contains elements of another colour" % c)
        seen += batch
    if sorted(seen) != [int(e) for e in sup]:
        fail("colouring", "colour batches do not partition the support")


# --------------------------------------------------------------------------- conformity


def global_values(space, e, pts):
    """{dof: values (codim, npts)} of the global basis functions on element e at local points pts (2,n)."""
    vals = space.evaluate(int(e), np.asarray(pts, dtype=float))
    out = {}
    l2g = space.local2global
    m = space.local_multipliers
    for i in range(l2g.shape[1]):
        if m[e, i] != 0:
            d = int(l2g[e, i])
            out[d] = out.get(d, 0) + vals[:, i, :]
    return out


def edge_points(el_e, u, w):
    """Local coordinates in element (vertex triple) el_e of u, midpoint, w."""
    iu, iw = list(el_e).index(u), list(el_e).index(w)
    a, b = REF[iu], REF[iw]
    return np.array([a, 0.5 * (a + b), b]).T


def check_conformity(ob, grid, space, fail, kind):
    """Continuity across every edge whose two neighbours lie in the support."""
    el = np.array(ob["el"]) - 1
    V = np.array(ob["xyz"], dtype=float)
    sup = space.support
    nm = space.normal_multipliers
    edges = {}
    for e in range(len(el)):
        for k, (i, j) in enumerate(LOCAL_EDGE):
            edges.setdefault(frozenset((int(el[e][i]), int(el[e][j]))), []).append(e)
    n_checked = 0
    for ed, nb in edges.items():
        nb = [e for e in nb if sup[e]]       # interior edge of the support: exactly two support elements meet there (also at a junction of more sheets)
        if len(nb) != 2:
            continue
        a, b = nb
        u, w = sorted(ed)
        va = global_values(space, a, edge_points(el[a], u, w))
        vb = global_values(space, b, edge_points(el[b], u, w))
        t = V[w] - V[u]
        t /= np.linalg.norm(t)
        for d in set(va) | set(vb):
            fa = va.get(d, np.zeros((space.codomain_dimension, 3)))
            fb = vb.get(d, np.zeros((space.codomain_dimension, 3)))
            if kind == "P1":
                jump = np.abs(fa - fb).max()
            elif kind == "RWG":
                # outward co-normals of a and b at the edge
                ca = np.cross(t, grid.normals[a])
                if np.dot(ca, V[u] - grid.centroids[a]) < 0:
                    ca = -ca
                cb = np.cross(t, grid.normals[b])
                if np.dot(cb, V[u] - grid.centroids[b]) < 0:
                    cb = -cb
                jump = np.abs(ca.dot(fa) + cb.dot(fb)).max()
            else:  # SNC: tangential component; only where both sides use the same orientation convention
                if nm[a] != nm[b]:
                    continue
                jump = np.abs(t.dot(fa) - t.dot(fb)).max()
            n_checked += 1
            if jump > 1e-9:
                fail("conformity_" + kind, "basis function %d jumps by %.3g across edge %s between elements %d,%d" % (d, jump, sorted(ed), a, b))
                return n_checked
    return n_checked


def check_partition_of_unity(ob, space, fail, kind):
    """DP0 / P1: the basis sums to one on the requested elements when nothing was cut away."""
    pts = np.array([[0.0, 1.0, 0.0, 1 / 3.0], [0.0, 0.0, 1.0, 1 / 3.0]])
    if ob["mode"] == "seg":
        S = [e for e in range(len(ob["el"])) if ob["dom"][e] in ob["segs"]]
    elif ob["mode"] == "sup":
        S = [e - 1 for e in ob["supp"]]
    else:
        S = list(range(len(ob["el"])))
    whole_closed = ob["mode"] == "all" and ob["req"]["closed"]
    if kind == "P1" and not (ob["ibd"] or whole_closed):
        return 0
    for e in S:
        tot = sum(v for v in global_values(space, e, pts).values())
        if not (np.abs(np.asarray(tot) - 1).max() <= 1e-12):   # NaN counts as a deviation
            fail("partition_of_unity", "%s basis sums to %s on element %d" % (kind, np.asarray(tot).ravel(), e))
            return 0
    return len(S)

"""Binding (A) for C11: replay GridModel obligations into bempp_cl.api.Grid.

Every comparison is against the requirement side ("req") of the obligation,
which TLC computed from the numbering-free definitions of Mesh.tla.  The
algorithm side ("algo") is compared only to report MODEL-DRIFT.
"""

from collections import Counter

import numpy as np

TOL = 1e-10


def build_grid(api, ob, elem_dtype="uint32", order="F", vert_dtype="float64", with_dom=True):
    v = np.array(ob["xyz"], dtype=vert_dtype).T
    e = (np.array(ob["el"], dtype="int64") - 1).T.astype(elem_dtype)
    v = np.array(v, order=order)
    e = np.array(e, order=order)
    dom = np.array(ob["dom"], dtype="uint32") if with_dom and "dom" in ob else None
    return api.Grid(v, e, dom)


def cyc_nf(t):
    t = [tuple(int(round(c)) for c in p) for p in t]
    r = [t, t[1:] + t[:1], t[2:] + t[:2]]
    return tuple(min(r))


def tri_multiset(grid, scale):
    out = Counter()
    V = grid.vertices
    for k in range(grid.number_of_elements):
        pts = [V[:, i] * scale for i in grid.elements[:, k]]
        if any(abs(c - round(c)) > 1e-9 for p in pts for c in p):
            return None
        out[(cyc_nf(pts), int(grid.domain_indices[k]))] += 1
    return out


def index_list(il, n):
    return [set(int(x) for x in il.indices[il.indexptr[i] : il.indexptr[i + 1]]) for i in range(n)]


def check_grid(api, ob, fail, drift, grid=None):
    """fail(aspect, detail) records a violation; returns the Grid."""
    req = ob["req"]
    g = grid if grid is not None else build_grid(api, ob)
    ne, nv = req["ne"], req["nv"]
    el0 = np.array(ob["el"], dtype=int) - 1

    if g.number_of_elements != ne or g.number_of_vertices != nv:
        fail("counts", "elements/vertices %s/%s vs %s/%s" % (g.number_of_elements, g.number_of_vertices, ne, nv))
        return g
    if g.entity_count(0) != ne or g.entity_count(2) != nv or g.entity_count(1) != len(req["edges"]):
        fail("entity_count", "entity_count disagrees with the number of elements/edges/vertices")
    if not np.array_equal(g.elements.T, el0):
        fail("elements", "elements array differs from the input")
    if not np.array_equal(g.domain_indices, np.array(ob["dom"])):
        fail("domain_indices", "domain indices differ from the input")

    # --- edges: each undirected edge exactly once
    edges = [tuple(sorted(int(x) + 1 for x in g.edges[:, i])) for i in range(g.edges.shape[1])]
    want = sorted(tuple(e) for e in req["edges"])
    if sorted(edges) != want:
        fail("edges", "edge list %s != %s" % (sorted(edges)[:8], want[:8]))
        return g
    if g.number_of_edges != len(want):
        fail("edges", "number_of_edges")
    # --- element_edges
    for e in range(ne):
        for k in range(3):
            idx = int(g.element_edges[k, e])
            if not (0 <= idx < len(edges)) or list(edges[idx]) != req["elemEdges"][e][k]:
                fail("element_edges", "element %d local edge %d -> %s, want %s" % (e, k, idx, req["elemEdges"][e][k]))
    # --- edge neighbours
    wn = {tuple(a): sorted(b) for a, b in req["edgeNbrs"]}
    for i, ed in enumerate(edges):
        got = sorted(int(x) + 1 for x in g.edge_neighbors[i])
        if got != wn[ed]:
            fail("edge_neighbors", "edge %s neighbours %s want %s" % (ed, got, wn[ed]))
    # --- vertex neighbours, element neighbours
    vn = index_list(g.vertex_neighbors, nv)
    for v in range(nv):
        if sorted(x + 1 for x in vn[v]) != req["vertexNbrs"][v]:
            fail("vertex_neighbors", "vertex %d: %s want %s" % (v, sorted(vn[v]), req["vertexNbrs"][v]))
    en = index_list(g.element_neighbors, ne)
    for e in range(ne):
        if sorted(x + 1 for x in en[e]) != req["elemNbrs"][e]:
            fail("element_neighbors", "element %d: %s want %s" % (e, sorted(en[e]), req["elemNbrs"][e]))
    # --- adjacency tables
    ea = g.edge_adjacency
    got = Counter()
    for c in range(ea.shape[1]):
        col = [int(x) for x in ea[:, c]]
        got[(col[0] + 1, col[1] + 1, frozenset([(col[2] + 1, col[4] + 1), (col[3] + 1, col[5] + 1)]))] += 1
    wantc = Counter((a, b, frozenset(tuple(m) for m in ms)) for a, b, ms in req["edgeAdj"])
    if got != wantc:
        fail("edge_adjacency", "got-want=%s want-got=%s" % (list((got - wantc).items())[:3], list((wantc - got).items())[:3]))
    va = g.vertex_adjacency
    got = Counter()
    for c in range(va.shape[1]):
        col = [int(x) for x in va[:, c]]
        got[(col[0] + 1, col[1] + 1, frozenset([(col[2] + 1, col[3] + 1)]))] += 1
    wantc = Counter((a, b, frozenset(tuple(m) for m in ms)) for a, b, ms in req["vertexAdj"])
    if got != wantc:
        fail("vertex_adjacency", "got-want=%s want-got=%s" % (list((got - wantc).items())[:3], list((wantc - got).items())[:3]))
    # --- boundary flags
    be = sorted(edges[i] for i in range(len(edges)) if g.edge_on_boundary[i])
    if be != sorted(tuple(e) for e in req["bndEdges"]):
        fail("edge_on_boundary", "%s want %s" % (be, req["bndEdges"]))
    bv = [i + 1 for i in range(nv) if g.vertex_on_boundary[i]]
    if bv != req["bndVerts"]:
        fail("vertex_on_boundary", "%s want %s" % (bv, req["bndVerts"]))
    # --- geometry
    cross = np.array(req["cross"], dtype=float)
    J = np.sqrt(np.array(req["j2"], dtype=float))
    sc = max(1.0, float(np.abs(cross).max()))
    if not (np.abs(g.normals * J[:, None] - cross).max() <= TOL * sc):   # NaN counts as a deviation
        fail("normals", "normals*J != (p1-p0)x(p2-p0)")
    if not (np.abs(np.linalg.norm(g.normals, axis=1) - 1).max() <= TOL):   # NaN counts as a deviation
        fail("normals", "normals are not unit")
    if not (np.abs(g.integration_elements - J).max() <= TOL * sc):   # NaN counts as a deviation
        fail("integration_elements", "integration element != |cross|")
    if not (np.abs(g.volumes - J / 2).max() <= TOL * sc):   # NaN counts as a deviation
        fail("volumes", "volume != |cross|/2")
    if not (np.abs(3 * g.centroids - np.array(req["centroid3"], dtype=float)).max() <= TOL * sc):   # NaN counts as a deviation
        fail("centroids", "centroid")
    d2 = np.array([a / b for a, b in req["diam2"]], dtype=float)
    if not (np.abs(g.diameters**2 - d2).max() <= TOL * max(1.0, d2.max())):   # NaN counts as a deviation
        fail("diameters", "diameter^2 %s want %s" % (g.diameters**2, d2))
    P = np.array(ob["xyz"], dtype=float)
    for e in range(ne):
        p0, p1, p2 = (P[i] for i in el0[e])
        Jm = g.jacobians[e]
        if np.abs(Jm[:, 0] - (p1 - p0)).max() > TOL * sc or np.abs(Jm[:, 1] - (p2 - p0)).max() > TOL * sc:
            fail("jacobians", "jacobian columns are not the edge vectors")
        Jit = g.jacobian_inverse_transposed[e]
        if not (np.abs(Jm.T.dot(Jit) - np.eye(2)).max() <= 1e-9):   # NaN counts as a deviation
            fail("jacobian_inverse_transposed", "J^T Jinvt != I")
        if not (np.abs(Jit.T.dot(g.normals[e])).max() <= 1e-9):   # NaN counts as a deviation
            fail("jacobian_inverse_transposed", "Jinvt not tangential")
        ge = g.get_element(e).geometry
        if not (np.abs(ge.corners - np.array([p0, p1, p2]).T).max() <= TOL * sc):   # NaN counts as a deviation
            fail("corners", "element geometry corners")
    for prec in ("double", "single"):
        d = g.data(prec)
        t = 1e-5 if prec == "single" else TOL
        if (
            np.abs(d.normals - g.normals).max() > t
            or np.abs(d.integration_elements - g.integration_elements).max() > t * sc
            or not np.array_equal(d.elements, g.elements)
            or not np.array_equal(d.element_edges, g.element_edges)
            or not np.array_equal(d.vertex_on_boundary, g.vertex_on_boundary)
        ):
            fail("grid_data_" + prec, "jitclass grid data disagrees with the grid")
    # --- MODEL-DRIFT (numbering the algorithm module predicts)
    algo = ob.get("algo")
    if algo is not None:
        if [list(e) for e in edges] != algo["edges"]:
            drift("edge numbering differs from GridModel.EnumStep (first-seen order)")
        elif (g.element_edges.T + 1).tolist() != algo["elemEdges"]:
            drift("element_edges numbering differs from GridModel.EnumStep")
        if sorted((ea.T + 1).tolist()) != sorted(algo["edgeAdj"]):
            drift("edge_adjacency index order differs from GridModel.TwoCommon")
        if sorted((va.T + 1).tolist()) != sorted(algo["vertexAdj"]):
            drift("vertex_adjacency index order differs from GridModel.FirstCommon")
    return g


def check_derived(api, ob, g, fail, big=False):
    """refine, barycentric refinement, grid_from_segments, union."""
    from bempp_cl.api.grid.grid import grid_from_segments, union

    req = ob["req"]
    dom = ob["dom"]
    # refine
    want = Counter()
    for e, kids in enumerate(req["refine"]):
        for t in kids:
            want[(tuple(tuple(p) for p in t), dom[e])] += 1
    r = g.refine()
    got = tri_multiset(r, 2)
    if got != want:
        fail("refine", "children of refine() are not the 4 nested, equally oriented sub-triangles with the parent's domain index")
    if not (abs(r.volumes.sum() - g.volumes.sum()) <= TOL * max(1, g.volumes.sum())):   # NaN counts as a deviation
        fail("refine", "surface area changed")
    want = Counter()
    for e, kids in enumerate(req["bary"]):
        for t in kids:
            want[(tuple(tuple(p) for p in t), dom[e])] += 1
    b = g.barycentric_refinement
    got = tri_multiset(b, 6)
    if got != want:
        fail("barycentric_refinement", "children are not the 6 barycentric sub-triangles with the parent's domain index")
    if b is not g.barycentric_refinement:
        fail("barycentric_refinement", "barycentric grid is not cached")
    # nesting by position: children 4e..4e+3 / 6e..6e+5 belong to parent e (relied on by the spaces)
    for (rg, m, sc, key) in ((r, 4, 2, "refine"), (b, 6, 6, "bary")):
        for e in range(g.number_of_elements):
            wantk = sorted(tuple(tuple(p) for p in t) for t in req[key][e])
            gotk = sorted(
                cyc_nf([rg.vertices[:, i] * sc for i in rg.elements[:, m * e + j]]) for j in range(m)
            )
            if wantk != gotk:
                fail(key + "_order", "children %d..%d are not those of parent %d" % (m * e, m * e + m - 1, e))
                break
    # segments
    base = tri_multiset(g, 1)
    for segs in sorted(set((d,) for d in dom)) + [tuple(sorted(set(dom)))[:2]]:
        if not segs:
            continue
        sg = grid_from_segments(g, list(segs))
        want = Counter({k: v for k, v in base.items() if k[1] in segs})
        if tri_multiset(sg, 1) != want:
            fail("grid_from_segments", "segments %s: extracted grid differs" % (segs,))
        if sg.number_of_vertices != len(set(sg.elements.ravel().tolist())):
            fail("grid_from_segments", "unused vertices kept")
    # the same on a grid with hundreds of vertices (three nested refinements): vertex numbers beyond the range in which small integer
    # sets happen to iterate in ascending order; elements of the extracted grid keep corner coordinates, orientation and domain index
    if big and g.number_of_elements >= 4:
        r3 = g.refine().refine().refine()
        base3 = tri_multiset(r3, 8)
        doms3 = sorted(set(int(d_) for d_ in r3.domain_indices))
        for segs in [(d_,) for d_ in doms3[:3]]:
            sg = grid_from_segments(r3, list(segs))
            want = Counter({k: v for k, v in base3.items() if k[1] in segs})
            if base3 is None or tri_multiset(sg, 8) != want:
                fail("grid_from_segments", "segments %s of the three times refined grid (%d vertices): extracted grid differs" % (segs, r3.number_of_vertices))
            if sg.number_of_vertices != len(set(sg.elements.ravel().tolist())):
                fail("grid_from_segments", "unused vertices kept (refined grid)")
        vn = index_list(r3.vertex_neighbors, r3.number_of_vertices) if r3.vertex_neighbors.indexptr.shape[0] == r3.number_of_vertices + 1 else None
        if vn is None:
            fail("vertex_neighbors", "vertex_neighbors of the refined grid has %d index pointers for %d vertices" % (r3.vertex_neighbors.indexptr.shape[0], r3.number_of_vertices))
    # union with itself shifted, second copy with swapped normals
    shift = np.array([[20.0], [0.0], [0.0]])
    g2 = api.Grid(g.vertices + shift, g.elements, g.domain_indices)
    u = union([g, g2], domain_indices=[3, 7], swapped_normals=[False, True])
    want = Counter()
    for (t, d), c in base.items():
        want[(t, 3)] += c
        t2 = [tuple(int(x) for x in (np.array(p) + shift[:, 0])) for p in t]
        want[(cyc_nf([t2[0], t2[2], t2[1]]), 7)] += c
    if tri_multiset(u, 1) != want:
        fail("union", "union([g, g+t], [3,7], swapped_normals=[F,T]) differs from the two copies (second reversed)")
    u2 = union([g, g2])
    if u2.number_of_elements != 2 * g.number_of_elements or abs(u2.volumes.sum() - 2 * g.volumes.sum()) > 1e-9 * max(1, g.volumes.sum()):
        fail("union", "default union loses elements or area")
    # default domain indices of a union keep the two grids apart
    if set(u2.domain_indices[: g.number_of_elements]) & set(u2.domain_indices[g.number_of_elements :]):
        fail("union", "default domain indices of the two grids overlap")
    # three and four grids: (grid number, old domain) -> new domain must be injective; normalised indices are 0..N-1
    g3 = api.Grid(g.vertices - shift, g.elements, g.domain_indices)
    g4 = api.Grid(g.vertices + 2 * shift, g.elements, (g.domain_indices.astype(int) + 2).astype("uint32"))
    for grids, kw, label in (([g, g2, g3], {}, "3 grids, default"), ([g, g2, g3, g4], {}, "4 grids, default"),
                             ([g, g4, g2], {"normalize_domain_indices": False}, "3 grids, normalize_domain_indices=False")):
        un = union(grids, **kw)
        ne = g.number_of_elements
        if un.number_of_elements != len(grids) * ne:
            fail("union", "%s: element count" % label)
            continue
        classes = {}
        ok = True
        for k, gk in enumerate(grids):
            for e in range(ne):
                key = (k, int(gk.domain_indices[e]))
                new = int(un.domain_indices[k * ne + e])
                if classes.setdefault(key, new) != new:
                    ok = False
        if not ok:
            fail("union", "%s: one (grid, domain) class is mapped to several domain indices" % label)
        elif len(set(classes.values())) != len(classes):
            fail("union", "%s: %d distinct (grid, domain) classes are mapped onto %d domain indices" % (label, len(classes), len(set(classes.values()))))
        elif not kw and sorted(set(classes.values())) != list(range(len(classes))):
            fail("union", "%s: normalised domain indices are %s, expected 0..%d" % (label, sorted(set(classes.values())), len(classes) - 1))
        if not (abs(un.volumes.sum() - len(grids) * g.volumes.sum()) <= 1e-9 * max(1, g.volumes.sum())):   # NaN counts as a deviation
            fail("union", "%s: surface area changed" % label)

"""Known findings: genuine defects of bempp-cl recorded rather than repaired.

File format (/verif/known_findings.json)::

    {"findings": [
       {"property": "C13", "key": "<call-site or input signature>",
        "status": "open" | "fixed", "what": "...", "commit": "<fix commit, if fixed>"} ]}

A check calls ``Check.violation(key, ...)``; an *open* entry whose ``key`` equals
the violation key (or is a prefix of it ending in ``*``) turns that violation
into a ``KNOWN-FINDING`` line. ``fixed`` entries suppress nothing. The file is
never written at run time.
"""

import json
import os

PATH = os.path.join(os.path.dirname(os.path.dirname(os.path.abspath(__file__))), "known_findings.json")


def load():
    if not os.path.exists(PATH):
        return []
    with open(PATH) as f:
        return json.load(f).get("findings", [])


def match(findings, pid, key):
    for f in findings:
        if f.get("property") != pid:
            continue
        k = f.get("key", "")
        if k == key or (k.endswith("*") and key.startswith(k[:-1])):
            return f
    return None

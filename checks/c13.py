"""C13 Sparse operators, projections and integrals are exact L2 quantities.

TLC (spec/L2Exact.tla, L2Model.tla) computes the exact element matrices (integer numerators) of the L2
inner products, surface-gradient products and triple products of the local bases for every element of
every mesh in the universe; the harness assembles identity / laplace_beltrami / MultiplicationOperator and
drives GridFunction (coefficients, callables of every flavour) and compares to rounding.
"""

import os
import sys

sys.path.insert(0, os.path.dirname(os.path.dirname(os.path.abspath(__file__))))
from harness import common  # noqa: E402

PID = "C13"
CFG = """SPECIFICATION Spec
CONSTANTS
  Bases = {%(bases)s}
  MaxDrop = %(drop)d
  Rot = %(rot)d
  EmitJson = TRUE
INVARIANT Sane
INVARIANT Emit
CHECK_DEADLOCK FALSE
"""
TOL = 1e-10


def l2_obligations(chk, tag, bases, drop, rot):
    from harness import replay_l2 as r2

    tmpcfg = os.path.join(common.SPEC, "_%s_%d.cfg" % (tag, os.getpid()))
    with open(tmpcfg, "w") as f:
        f.write(CFG % dict(bases=", ".join('"%s"' % b for b in bases), drop=drop, rot=rot))
    try:
        res = common.run_tlc("L2Model", os.path.basename(tmpcfg), timeout=3000)
    finally:
        os.remove(tmpcfg)
    chk.add_tlc("L2Model %s drop=%d rot=%d" % (bases, drop, rot), res)
    if not res.ok:
        chk.violation("spec:" + str(res.violated), "TLC: L2Model violates %s" % res.violated, {"trace": res.trace[-1:]})
        return []
    chk.require_coverage(res, ["Next"])
    return r2.collect(res.obligations)


def body():
    chk = common.Check(PID, "model_checking")
    api = common.use_repo()
    import numpy as np
    from harness import replay_l2 as r2

    chk.assume(
        "exact element matrices are integer numerators computed by TLC; J and edge lengths are square roots of TLC's integers",
        "global matrices are T_test^T blockdiag(exact) T_trial with T = space.map_to_full_grid, whose structure C09 verifies",
        "'every quadrature order that integrates the product exactly' = order >= sum of the polynomial degrees of the two local bases",
    )
    quick = chk.tier == "quick"
    meshes = l2_obligations(chk, "c13", ["OCT", "TET", "STRIP8"], 1 if quick else 2, 1)
    if not quick:
        meshes += l2_obligations(chk, "c13b", ["CUBE12", "DISJ"], 1, 2)
    else:
        # quick: whole meshes, every TET sub-complex (non-uniform sizes) and every third other sub-complex
        meshes = [m for k, m in enumerate(meshes) if len(m.h["sub"]) in (4, 8) and m.h["base"] != "TET" or m.h["base"] == "TET" or k % 3 == 0]
    sparse = api.operators.boundary.sparse
    par = api.GLOBAL_PARAMETERS
    rng = np.random.RandomState(chk.seed)
    orders_all = list(range(1, 21))

    @api.real_callable
    def f_jit(x, n, d, res):
        res[0] = x[0] - 2.0 * x[1] + 0.5 * x[2] + 0.75

    @api.real_callable(jit=False)
    def f_py(x, n, d, res):
        res[0] = x[0] - 2.0 * x[1] + 0.5 * x[2] + 0.75

    @api.callable(vectorized=True)
    def f_vec(x, n, d, res):
        res[0, :] = x[0] - 2.0 * x[1] + 0.5 * x[2] + 0.75

    @api.callable(parameterized=True)
    def f_par(x, n, d, res, p):
        res[0] = p[0] * x[0] + p[1] * x[1] + p[2] * x[2] + p[3]

    @api.complex_callable
    def f_cplx(x, n, d, res):
        res[0] = (1.0 + 2.0j) * (x[0] - 2.0 * x[1] + 0.5 * x[2] + 0.75)

    @api.real_callable
    def f_dom(x, n, d, res):
        res[0] = 2.0 * d + 1.0

    @api.callable(vectorized=True)
    def f_dom_vec(x, n, d, res):
        res[0, :] = 2.0 * d + 1.0

    @api.callable(vectorized=True, complex=True)
    def f_dom_vec_c(x, n, d, res):
        res[0, :] = (1.0 + 0.5j) * (2.0 * d + 1.0)

    @api.real_callable
    def f_vecfield(x, n, d, res):
        res[0] = 1.0
        res[1] = -2.0
        res[2] = 0.5


    for mi, m in enumerate(meshes):
        label = "%s/%s" % (m.h["base"], "".join(map(str, m.h["sub"])))

        def fail(key, detail, extra=None, m=m, label=label):
            chk.violation(key, "%s on %s" % (detail, label), {"mesh": {k: m.h[k] for k in ("base", "sub", "xyz", "el", "dom")}, "extra": extra})

        try:
            g = m.grid(api)
            segs = sorted(set(m.dom.tolist()))
            variants = [("all", {})]
            if len(segs) > 1:
                variants.append(("seg%d" % segs[-1], {"segments": [segs[-1]]}))
            if m.n >= 3:
                variants.append(("sup", {"support_elements": np.array([m.n - 2, m.n - 1], dtype="uint32")}))
            full = mi % 3 == 0 or not quick
            for vname, kw in variants if full else variants[:2]:
                sp = {}
                for kind in ("DP0", "DP1", "P1", "RWG", "SNC"):
                    kw2 = dict(kw)
                    if kind in ("P1", "RWG", "SNC"):
                        kw2["include_boundary_dofs"] = True  # no zero-DOF spaces; affine functions lie in the P1 space
                    sp[kind] = r2.make(api, g, kind, **kw2)
                T = {k: s.map_to_full_grid.toarray() for k, s in sp.items()}
                pairs = [("P1", "P1"), ("DP0", "P1"), ("DP1", "DP0"), ("DP0", "DP0"), ("RWG", "RWG"), ("SNC", "SNC"), ("RWG", "SNC"), ("SNC", "RWG"), ("P1", "DP1")]
                for kt, ks in pairs:
                    W = T[kt].T.dot(m.block_diag(kt, ks)).dot(T[ks])
                    lo = r2.min_order(kt, ks)
                    orders = [o for o in ((lo, 4, 11, 20) if quick else orders_all) if o >= lo]
                    for o in sorted(set(orders)):
                        par.quadrature.regular = o
                        A = sparse.identity(sp[ks], sp[ks], sp[kt]).weak_form().to_dense()
                        chk.count((m.id, vname, kt, ks, o), m.n >= 2)
                        chk.cov["obligations_replayed"] += 1
                        if A.shape != W.shape or r2.rel(A, W) > TOL:
                            fail("identity:%s:%s" % (kt, ks), "identity(%s -> dual %s, %s, order %d) deviates from the exact L2 matrix by %.3g" % (
                                ks, kt, vname, o, r2.rel(A, W) if A.shape == W.shape else float("nan")))
                            break
                    par.quadrature.regular = 4
                    if kt == ks and W.size:
                        A = sparse.identity(sp[ks], sp[ks], sp[kt]).weak_form().to_dense()
                        if np.abs(A - A.T).max() > 1e-12 * np.abs(A).max() or np.linalg.eigvalsh(0.5 * (A + A.T)).min() <= 0:
                            fail("identity:spd:%s" % kt, "mass matrix of %s (%s) is not symmetric positive definite" % (kt, vname))
                # surface area from partition-of-unity bases
                area = float(m.J.sum() / 2)
                if vname == "all":
                    for kind in ("DP0", "P1"):
                        if sp[kind].global_dof_count and kind == "DP0" or g.vertex_on_boundary.sum() == 0:
                            A = sparse.identity(sp[kind], sp[kind], sp[kind]).weak_form().to_dense()
                            if not (abs(A.sum() - area) <= TOL * area):   # NaN counts as a deviation
                                fail("identity:area:%s" % kind, "entries of the %s mass matrix sum to %.12g, surface area %.12g" % (kind, A.sum(), area))
                # Laplace-Beltrami
                W = T["P1"].T.dot(m.block_diag("P1", "P1", m.lb)).dot(T["P1"])
                for o in (1, 3, 8) if quick else (1, 2, 3, 5, 8, 13, 20):
                    par.quadrature.regular = o
                    A = sparse.laplace_beltrami(sp["P1"], sp["P1"], sp["P1"]).weak_form().to_dense()
                    chk.count((m.id, vname, "lb", o), True)
                    if not (r2.rel(A, W) <= TOL):   # NaN counts as a deviation
                        fail("laplace_beltrami", "laplace_beltrami (P1, %s, order %d) deviates by %.3g from the exact surface-gradient matrix" % (vname, o, r2.rel(A, W)))
                        break
                par.quadrature.regular = 4
                A = sparse.laplace_beltrami(sp["P1"], sp["P1"], sp["P1"]).weak_form().to_dense()
                if A.size and (np.abs(A - A.T).max() > 1e-12 * max(1e-300, np.abs(A).max()) or np.linalg.eigvalsh(0.5 * (A + A.T)).min() < -1e-10 * np.abs(A).max()):
                    fail("laplace_beltrami:psd", "laplace_beltrami (%s) is not symmetric positive semi-definite" % vname)
                if vname == "all" and g.vertex_on_boundary.sum() == 0 and np.abs(A.dot(np.ones(A.shape[1]))).max() > 1e-10 * np.abs(A).max():
                    fail("laplace_beltrami:constants", "laplace_beltrami does not annihilate constants on a closed grid")
                # grid functions given by coefficients
                for kind in ("P1", "DP0", "DP1", "RWG", "SNC"):
                    s = sp[kind]
                    nd = s.global_dof_count
                    if nd == 0:
                        continue
                    for cplx in (False, True):
                        c = rng.randint(-4, 5, nd).astype(float)
                        if cplx:
                            c = c + 1j * rng.randint(-4, 5, nd)
                        f = api.GridFunction(s, coefficients=c)
                        loc = T[kind].dot(c)  # coefficients of the local (element, index) basis incl. multipliers
                        M = T[kind].T.dot(m.block_diag(kind, kind)).dot(T[kind])
                        chk.count((m.id, vname, kind, "gf", cplx), True)
                        # l2 norm and projections
                        want = np.sqrt(abs(np.conj(c).dot(M.dot(c))))
                        if not (abs(f.l2_norm() - want) <= TOL * max(1.0, want)):   # NaN counts as a deviation
                            fail("gridfunction:l2_norm:%s" % kind, "l2_norm of a %s function (%s): %.14g, exact %.14g" % (kind, vname, f.l2_norm(), want))
                        if not (r2.rel(f.projections(), M.dot(c)) <= TOL):   # NaN counts as a deviation
                            fail("gridfunction:projections:%s" % kind, "projections() of a %s function (%s) deviate by %.3g" % (kind, vname, r2.rel(f.projections(), M.dot(c))))
                        other = {"P1": "DP0", "DP0": "P1", "DP1": "P1", "RWG": "SNC", "SNC": "RWG"}[kind]
                        Mo = T[other].T.dot(m.block_diag(other, kind)).dot(T[kind])
                        if Mo.size and r2.rel(f.projections(sp[other]), Mo.dot(c)) > TOL:
                            fail("gridfunction:projections_dual:%s" % kind, "projections(dual=%s) of a %s function (%s) deviate by %.3g" % (other, kind, vname, r2.rel(f.projections(sp[other]), Mo.dot(c))))
                        # asking again for the own projections after a foreign dual space was used must give the same answer
                        if not (r2.rel(f.projections(), M.dot(c)) <= TOL):   # NaN counts as a deviation
                            fail("gridfunction:projections_again:%s" % kind, "projections() of a %s function (%s) after projections(dual=%s) deviate by %.3g" % (kind, vname, other, r2.rel(f.projections(), M.dot(c))))
                        # integral
                        nsh = r2.KINDS[kind][2]
                        if kind in r2.SCALAR:
                            w = np.concatenate([np.full(nsh, m.J[e] / (2.0 * nsh)) for e in range(m.n)])
                            want = np.array([w.dot(loc)])
                        else:
                            want = np.zeros(3, dtype=loc.dtype)
                            for e in range(m.n):
                                vec = np.array(m.elem[e]["rwgint"], dtype=float) * m.l[e][:, None] / 120.0  # int RWG_k
                                if kind == "SNC":
                                    nrm = g.normals[e] * s.normal_multipliers[e]
                                    vec = np.cross(nrm, vec)
                                want = want + loc[3 * e : 3 * e + 3].dot(vec)
                        got = np.asarray(f.integrate())
                        if not (np.abs(got - want).max() <= TOL * max(1.0, np.abs(want).max())):   # NaN counts as a deviation
                            fail("gridfunction:integrate:%s" % kind, "integrate() of a %s function (%s) = %s, exact %s" % (kind, vname, got, want))
                        # point evaluation
                        if kind == "P1":
                            ev = f.evaluate_on_vertices()[0]
                            vert = np.zeros(g.number_of_vertices, dtype=c.dtype)
                            seen = np.zeros(g.number_of_vertices, dtype=bool)
                            area_w = np.zeros(g.number_of_vertices)
                            for e in np.flatnonzero(s.support):
                                for i in range(3):
                                    v = m.el[e, i]
                                    vert[v] += loc[3 * e + i] * m.J[e]
                                    area_w[v] += m.J[e]
                                    seen[v] = True
                            vert[seen] /= area_w[seen]
                            if not (np.abs(ev - vert).max() <= TOL * max(1.0, np.abs(vert).max())):   # NaN counts as a deviation
                                fail("gridfunction:evaluate_on_vertices", "evaluate_on_vertices of a P1 function (%s) deviates" % vname)
                            ce = f.evaluate_on_element_centers()[0]
                            wantc = np.array([loc[3 * e : 3 * e + 3].sum() / 3.0 if s.support[e] else 0.0 for e in range(m.n)])
                            if not (np.abs(ce - wantc).max() <= TOL * max(1.0, np.abs(wantc).max())):   # NaN counts as a deviation
                                fail("gridfunction:evaluate_on_element_centers", "evaluate_on_element_centers of a P1 function (%s) deviates" % vname)
                            for e in np.flatnonzero(s.support)[:3]:
                                v = f.evaluate(int(e), np.array([[0.0, 1.0, 0.0, 0.25], [0.0, 0.0, 1.0, 0.5]]))[0]
                                lw = loc[3 * e : 3 * e + 3]
                                if not (np.abs(v - np.array([lw[0], lw[1], lw[2], 0.25 * lw[0] + 0.25 * lw[1] + 0.5 * lw[2]])).max() <= TOL * max(1.0, np.abs(lw).max())):   # NaN counts as a deviation
                                    fail("gridfunction:evaluate", "evaluate() of a P1 function deviates on element %d (%s)" % (e, vname))
                        if kind == "DP0":
                            ce = f.evaluate_on_element_centers()[0]
                            wantc = np.array([loc[e] if s.support[e] else 0.0 for e in range(m.n)])
                            if not (np.abs(ce - wantc).max() <= TOL * max(1.0, np.abs(wantc).max())):   # NaN counts as a deviation
                                fail("gridfunction:evaluate_on_element_centers", "evaluate_on_element_centers of a DP0 function (%s) deviates" % vname)
                # callables that lie in the space are reproduced exactly
                a = np.array([1.0, -2.0, 0.5])
                b0 = 0.75
                uvert = m.xyz.dot(a) + b0

                s = sp["P1"]
                if s.global_dof_count and (mi % 2 == 0 or not quick):
                    Tm = T["P1"]
                    # vertex of each dof
                    ent = np.zeros(s.global_dof_count, dtype=int)
                    for e in np.flatnonzero(s.support):
                        for i in range(3):
                            if s.local_multipliers[e, i] != 0:
                                ent[s.local2global[e, i]] = m.el[e, i]
                    flavours = [("jit", f_jit, None, 1.0), ("nonjit", f_py, None, 1.0), ("vectorized", f_vec, None, 1.0),
                                ("parameterized", f_par, np.array([1.0, -2.0, 0.5, 0.75]), 1.0), ("complex", f_cplx, None, 1.0 + 2.0j)]
                    for fname, fun, fp, factor in flavours if (mi % 4 == 0 or not quick) else flavours[:1]:
                        for o in (2, 5) if quick else (2, 3, 4, 9, 16):
                            par.quadrature.regular = o
                            kwargs = {"function_parameters": fp} if fp is not None else {}
                            gf = api.GridFunction(s, fun=fun, **kwargs)
                            chk.count((m.id, vname, "callable", fname, o), True)
                            if True:
                                # with boundary dofs included the affine function lies in the space restricted to its support
                                want = factor * uvert[ent]
                                if not (np.abs(gf.coefficients - want).max() <= 1e-9 * max(1.0, np.abs(want).max())):   # NaN counts as a deviation
                                    fail("callable:%s" % fname, "P1 coefficients of an affine %s callable (order %d, %s) deviate by %.3g from the vertex values" % (
                                        fname, o, vname, np.abs(gf.coefficients - want).max()))
                                    break
                    par.quadrature.regular = 4
                    gf = api.GridFunction(sp["DP0"], fun=f_dom)
                    want = np.array([2.0 * m.dom[e] + 1.0 for e in np.flatnonzero(sp["DP0"].support)])
                    if not (np.abs(gf.coefficients - want).max() <= 1e-10):   # NaN counts as a deviation
                        fail("callable:domain_index", "DP0 coefficients of a domain-wise constant callable (%s) deviate" % vname)
                    for fv, fac, nm in ((f_dom_vec, 1.0, "vectorized"), (f_dom_vec_c, 1.0 + 0.5j, "vectorized complex")):
                        for kk in ("DP0", "DP1"):
                            gfv = api.GridFunction(sp[kk], fun=fv)
                            wantv = fac * np.repeat(want, 1 if kk == "DP0" else 3)
                            if not (np.abs(gfv.coefficients - wantv).max() <= 1e-10):   # NaN counts as a deviation
                                fail("callable:domain_index:%s" % nm.replace(" ", "_"), "%s coefficients of a domain-wise constant %s callable (%s) deviate by %.3g" % (
                                    kk, nm, vname, np.abs(gfv.coefficients - wantv).max()))
                    # projections of a constant vector field onto RWG
                    gf = api.GridFunction(sp["RWG"], fun=f_vecfield)
                    wantp = np.zeros(3 * m.n)
                    for e in range(m.n):
                        wantp[3 * e : 3 * e + 3] = (np.array(m.elem[e]["rwgint"], dtype=float) * m.l[e][:, None] / 120.0).dot(a)
                    wantp = T["RWG"].T.dot(wantp)
                    if wantp.size and r2.rel(gf.projections(), wantp) > TOL:
                        fail("callable:vector", "projections of a constant vector field onto RWG (%s) deviate by %.3g" % (vname, r2.rel(gf.projections(), wantp)))
                # MultiplicationOperator
                par.quadrature.regular = 4
                s = sp["P1"]
                if s.global_dof_count:
                    cg = rng.randint(-3, 4, s.global_dof_count).astype(float)
                    gfun = api.GridFunction(s, coefficients=cg)
                    locg = T["P1"].dot(cg)

                    def tri(e):
                        c3 = np.array(m.elem[e]["c3"], dtype=float)
                        return m.J[e] / 120.0 * np.tensordot(c3, locg[3 * e : 3 * e + 3], axes=([2], [0]))

                    W = T["P1"].T.dot(m.block_diag("P1", "P1", tri)).dot(T["P1"])
                    try:
                        A = api.MultiplicationOperator(gfun, s, s, s).weak_form().to_dense()
                        chk.count((m.id, vname, "multop"), True)
                        if not (r2.rel(A, W) <= TOL):   # NaN counts as a deviation
                            fail("multiplication_operator:component", "MultiplicationOperator(P1 function; P1, P1, P1; %s) deviates by %.3g from the exact triple-product matrix" % (vname, r2.rel(A, W)))
                    except Exception as exc:
                        fail("multiplication_operator:component", "MultiplicationOperator raises %s: %s" % (type(exc).__name__, exc))
                s = sp["RWG"]
                if s.global_dof_count:
                    cg = rng.randint(-3, 4, s.global_dof_count).astype(float)
                    gfun = api.GridFunction(s, coefficients=cg)
                    locg = T["RWG"].dot(cg)

                    def inner(e):
                        G = m.local("RWG", "RWG", e)
                        return locg[3 * e : 3 * e + 3].dot(G).reshape(1, 3)

                    W = T["DP0"].T.dot(m.block_diag("DP0", "RWG", inner)).dot(T["RWG"])
                    try:
                        A = api.MultiplicationOperator(gfun, s, sp["DP0"], sp["DP0"], mode="inner").weak_form().to_dense()
                        chk.count((m.id, vname, "multop_inner"), True)
                        if not (r2.rel(A, W) <= TOL):   # NaN counts as a deviation
                            fail("multiplication_operator:inner", "MultiplicationOperator(mode='inner'; RWG, DP0, DP0; %s) deviates by %.3g" % (vname, r2.rel(A, W)))
                    except Exception as exc:
                        fail("multiplication_operator:inner", "MultiplicationOperator(mode='inner') raises %s: %s" % (type(exc).__name__, exc))
            if mi < 3:
                chk.sample({"mesh": label, "elements": m.n, "element_1": {k: m.elem[0][k] for k in ("j2", "len2", "p1mass", "lb", "rwg")}})
        except Exception as exc:
            import traceback

            fail("exception", "%s: %s\n%s" % (type(exc).__name__, exc, traceback.format_exc()[-600:]))
        finally:
            par.quadrature.regular = 4
    chk.cov["rule"] = ("one obligation per (mesh, support variant, space pair, order) for the identity; plus Laplace-Beltrami, grid functions with integer "
                       "coefficient vectors (real and complex), callables of every flavour, MultiplicationOperator; non-trivial = mesh with >= 2 elements")
    chk.cov["meshes"] = len(meshes)
    return chk.finish()


if __name__ == "__main__":
    common.main(body)

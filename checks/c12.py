"""C12 Quadrature rules have their stated degree of exactness.

TLC (spec/Quadrature.tla) walks the finite obligation space (family, order, total degree), checks the
table-layout laws and emits every monomial with its exact rational moment; each obligation is replayed
into triangle_gauss.rule / gauss.rule / duffy_galerkin.rule.
"""

import os
import sys

sys.path.insert(0, os.path.dirname(os.path.dirname(os.path.abspath(__file__))))
from harness import common  # noqa: E402

PID = "C12"
CFG = """SPECIFICATION Spec
CONSTANTS
  MaxDuffyOrder = %d
  EmitJson = TRUE
INVARIANT LayoutOK
INVARIANT MomentsSane
INVARIANT Emit
CHECK_DEADLOCK FALSE
"""


def body():
    chk = common.Check(PID, "model_checking")
    common.use_repo()
    import numpy as np
    from bempp_cl.api.integration import triangle_gauss as tg, gauss, duffy_galerkin as dg

    chk.assume(
        "exact moments 1/((a+b+2)(a+b+1)C(a+b,a)) and 1/(m+1) are computed by TLC in 32-bit integers (largest denominator 85 349 880)",
        "'to rounding' for a quadrature sum = absolute 2e-14 (sums are bounded by the measure of the domain)",
        "clause 'geometric convergence to reference values of the 1/|x-y| integral' is not covered (transcendental reference, DESIGN 6)",
    )
    maxd = 8 if chk.tier == "quick" else 10
    tmpcfg = os.path.join(common.SPEC, "_c12_%d.cfg" % os.getpid())
    with open(tmpcfg, "w") as f:
        f.write(CFG % maxd)
    try:
        res = common.run_tlc("Quadrature", os.path.basename(tmpcfg), timeout=3000)
    finally:
        os.remove(tmpcfg)
    chk.add_tlc("Quadrature MaxDuffyOrder=%d" % maxd, res)
    if not res.ok:
        chk.violation("spec:" + str(res.violated), "TLC: Quadrature violates %s" % res.violated, {"trace": res.trace[-1:]})
        return chk.finish()
    chk.require_coverage(res, ["Next"])
    TOL = 2e-14
    rules = {}

    def get_rule(fam, n):
        if (fam, n) not in rules:
            if fam == "triangle":
                p, w = tg.rule(n)
                rules[(fam, n)] = (np.vstack([p]), w)
            elif fam == "gauss":
                x, w = gauss.rule(n)
                rules[(fam, n)] = (np.array([x]), w)
            else:
                pt, ps, w = dg.rule(n, fam)
                rules[(fam, n)] = (np.vstack([pt, ps]), w)
        return rules[(fam, n)]

    seen = set()
    for ob in res.obligations:
        fam, n = ob["fam"], ob["n"]

        def fail(aspect, detail, fam=fam, n=n, ob=ob):
            chk.violation("%s:%s" % (fam, aspect), "%s rule of order %d: %s" % (fam, n, detail), {"fam": fam, "n": n, "deg": ob["deg"]})

        try:
            X, w = get_rule(fam, n)
        except Exception as exc:
            fail("exception", "%s: %s" % (type(exc).__name__, exc))
            continue
        if (fam, n) not in seen:
            seen.add((fam, n))
            if fam == "triangle":
                if int(tg.get_number_of_quad_points(n)) != len(w) or X.shape != (2, len(w)):
                    fail("npoints", "get_number_of_quad_points disagrees with the rule")
            elif ob["npoints"] != len(w) or X.shape[1] != len(w):
                fail("npoints", "%d points, advertised %d" % (len(w), ob["npoints"]))
            if fam not in ("triangle", "gauss") and dg.number_of_quadrature_points(n, fam) != ob["npoints"]:
                fail("npoints", "number_of_quadrature_points(%d) = %d, advertised %d" % (n, dg.number_of_quadrature_points(n, fam), ob["npoints"]))
        for mono, dens in ob["mono"]:
            val = w.copy()
            for k, a in enumerate(mono):
                if a:
                    val = val * X[k] ** a
            got = float(val.sum())
            want = 1.0
            for d in dens:
                want /= d
            chk.count((fam, n, tuple(mono)), sum(mono) > 0)
            if not (abs(got - want) <= TOL):   # NaN counts as a deviation
                fail("degree", "monomial %s (degree %d <= %d) integrates to %.17g, exact %.17g" % (mono, sum(mono), ob["maxdeg"], got, want))
                break
        chk.cov["obligations_replayed"] += 1
        if len(chk.cov["samples"]) < 4 and ob["deg"] == 2:
            chk.sample({"fam": fam, "n": n, "deg": 2, "mono": ob["mono"][:3]})
    # rejected lookups
    for name, fn, bad in (("triangle", tg.rule, (0, 21, -1, 25)), ("gauss", gauss.rule, (0, 31, -3))):
        for n in bad:
            try:
                fn(n)
                chk.violation("%s:range" % name, "%s rule lookup for order %d outside the supported range is not rejected" % (name, n), {"n": n})
            except (ValueError, IndexError):
                pass
    for adj in ("coincident2", "", "edge"):
        try:
            dg.rule(3, adj)
            chk.violation("duffy:range", "duffy rule for unknown adjacency %r is not rejected" % adj, {})
        except ValueError:
            pass
        try:
            dg.number_of_quadrature_points(3, adj)
            chk.violation("duffy:range", "number_of_quadrature_points for unknown adjacency %r is not rejected" % adj, {})
        except ValueError:
            pass
    # remaps are the vertex maps the specification (Assembly.RemapOnSharedEntity) assumes
    ref = np.array([[0.0, 1.0, 0.0, 1 / 3.0, 0.2], [0.0, 0.0, 1.0, 1 / 3.0, 0.5]])
    verts = [(0.0, 0.0), (1.0, 0.0), (0.0, 1.0)]

    def vid(p):
        for k, v in enumerate(verts):
            if abs(p[0] - v[0]) < 1e-14 and abs(p[1] - v[1]) < 1e-14:
                return k
        return None

    for i in range(3):
        for j in range(3):
            if i == j:
                continue
            q = dg.remap_points_shared_edge(ref, i, j)
            img = [vid(q[:, k]) for k in range(3)]
            aff = np.abs(q[:, 3] - np.array([1 / 3.0, 1 / 3.0])).max() < 1e-14
            A = np.array([q[:, 1] - q[:, 0], q[:, 2] - q[:, 0]]).T
            lin = np.abs(A.dot(ref[:, 4]) + q[:, 0] - q[:, 4]).max() < 1e-14
            chk.count(("remap_edge", i, j), True)
            if img[:2] != [i, j] or sorted(x for x in img if x is not None) != [0, 1, 2] or not aff or not lin:
                chk.violation("remap:edge", "remap_points_shared_edge(%d,%d) sends reference vertices to %s (affine: %s)" % (i, j, img, aff and lin), {"i": i, "j": j})
    for k in range(3):
        q = dg.remap_points_shared_vertex(ref, k)
        img = [vid(q[:, m]) for m in range(3)]
        A = np.array([q[:, 1] - q[:, 0], q[:, 2] - q[:, 0]]).T
        lin = np.abs(A.dot(ref[:, 4]) + q[:, 0] - q[:, 4]).max() < 1e-14
        chk.count(("remap_vertex", k), True)
        if img[0] != k or sorted(x for x in img if x is not None) != [0, 1, 2] or not lin:
            chk.violation("remap:vertex", "remap_points_shared_vertex(%d) sends reference vertices to %s" % (k, img), {"k": k})
    # model drift: the transcribed address tables
    ppo = [1, 3, 4, 6, 7, 12, 13, 16, 19, 25, 27, 33, 37, 42, 48, 52, 61, 70, 73, 79]
    if list(tg.points_per_order) != ppo:
        chk.model_drift("triangle_gauss.points_per_order differs from Quadrature.PointsPerOrder")
    chk.cov["rule"] = "one obligation per (family, order, total degree) with all monomials of that degree; non-trivial = degree > 0; 6+3 remaps"
    chk.cov["exhaustive"] = True
    return chk.finish()


if __name__ == "__main__":
    common.main(body)

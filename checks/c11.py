"""C11 Grid topology and geometry data are complete and consistent.

TLC (spec/GridModel.tla + Mesh.tla) enumerates the sub-complex universe U1, runs
the transcribed topology algorithms and checks them against the numbering-free
requirement; every terminal state is replayed into bempp_cl.api.Grid.
"""

import os
import sys

sys.path.insert(0, os.path.dirname(os.path.dirname(os.path.abspath(__file__))))
from harness import common  # noqa: E402

PID = "C11"

CFG = """SPECIFICATION Spec
CONSTANTS
  Bases = {%(bases)s}
  RotPatterns = {%(rots)s}
  Flips = {%(flips)s}
  MaxKeep = %(keep)d
  MaxDrop = %(drop)d
  EmitJson = TRUE
INVARIANT InputSane
INVARIANT EdgesOnce
INVARIANT ElemEdgesConsistent
INVARIANT EdgeAdjExact
INVARIANT VertexAdjExact
INVARIANT ReqSane
INVARIANT Emit
CHECK_DEADLOCK FALSE
"""


def runs(tier):
    small = ["OCT", "TET", "STRIP8", "BOW", "FAN3", "DUP", "DISJ"]
    if tier == "quick":
        yield dict(bases=small, rots=[0, 1], flips=[0], keep=12, drop=12)
        yield dict(bases=["CUBE12"], rots=[2], flips=[0, 1], keep=2, drop=1)
    else:
        for r in (0, 1, 2):
            for f in (0, 1):
                yield dict(bases=small, rots=[r], flips=[f], keep=12, drop=12)
                yield dict(bases=["CUBE12"], rots=[r], flips=[f], keep=12, drop=12)


def body():
    chk = common.Check(PID, "model_checking")
    api = common.use_repo()
    from harness import replay_grid as rg
    import numpy as np

    chk.assume(
        "TLC 1.8 evaluates Mesh.tla/GridModel.tla correctly; JSON boundary (1-based ids) converted in harness/replay_grid.py",
        "numpy sqrt/dot/cross used to compare floating geometry with the integer oracle (tolerance 1e-10*scale)",
        "universe: sub-complexes of OCT, CUBE12, TET, STRIP8 and the soups BOW, FAN3, DUP, DISJ with rotation patterns and reversal (DESIGN 4 U1/U3)",
    )
    cases = set()
    nobl = 0
    for n, kw in enumerate(runs(chk.tier)):
        cfgname = "GridModel_run.cfg"
        tmpcfg = os.path.join(common.SPEC, "_c11_%d_%d.cfg" % (os.getpid(), n))
        with open(tmpcfg, "w") as f:
            f.write(
                CFG
                % dict(
                    bases=", ".join('"%s"' % b for b in kw["bases"]),
                    rots=", ".join(map(str, kw["rots"])),
                    flips=", ".join(map(str, kw["flips"])),
                    keep=kw["keep"],
                    drop=kw["drop"],
                )
            )
        try:
            res = common.run_tlc("GridModel", os.path.basename(tmpcfg), timeout=3000)
        finally:
            os.remove(tmpcfg)
        chk.add_tlc("GridModel %s" % kw, res)
        if not res.ok:
            # the algorithm module does not meet the requirement: design-level finding
            chk.violation("spec:" + str(res.violated), "TLC: GridModel violates %s\n%s" % (res.violated, "\n".join(res.trace[-2:])), {"cfg": kw})
            continue
        chk.require_coverage(res, ["EnumStep", "EnumDone", "AdjStep"])
        for ob in res.obligations:
            nobl += 1
            sig = "%s/%s/r%d/f%d" % (ob["base"], "".join(map(str, ob["sub"])), ob["rot"], ob["flip"])

            def fail(aspect, detail, ob=ob, sig=sig):
                chk.violation(aspect, "%s on %s: %s" % (aspect, sig, detail), {"obligation": {k: ob[k] for k in ("base", "sub", "rot", "flip", "xyz", "el", "dom")}})

            drifted = []
            try:
                g = rg.check_grid(api, ob, fail, drifted.append)
                rg.check_derived(api, ob, g, fail, big=(nobl % 40 == 0))
                # vertices that no element uses (here: two appended at the end) are legal input: same tables, empty rows for them
                if nobl % 9 == 0:
                    nv0 = g.number_of_vertices
                    Vx = np.hstack([g.vertices, np.array([[50.0, 51.0], [50.0, 50.0], [50.0, 50.0]])])
                    gx = api.Grid(Vx, g.elements, g.domain_indices)
                    vnx = gx.vertex_neighbors
                    if gx.number_of_vertices != nv0 + 2 or vnx.indexptr.shape[0] != nv0 + 3 or gx.element_to_vertex_matrix.shape != (nv0 + 2, g.number_of_elements):
                        fail("unused_vertices", "grid with 2 unused trailing vertices: %d vertices, %d index pointers in vertex_neighbors, element_to_vertex_matrix of shape %s" % (
                            gx.number_of_vertices, vnx.indexptr.shape[0], gx.element_to_vertex_matrix.shape))
                    else:
                        rows0, rowsx = rg.index_list(g.vertex_neighbors, nv0), rg.index_list(vnx, nv0 + 2)
                        if rowsx[:nv0] != rows0 or rowsx[nv0] or rowsx[nv0 + 1]:
                            fail("unused_vertices", "vertex_neighbors changes when unused vertices are appended")
                        if not np.array_equal(gx.edges, g.edges) or not np.array_equal(gx.element_neighbors.indices, g.element_neighbors.indices) or \
                                not np.array_equal(gx.edge_adjacency, g.edge_adjacency) or not np.array_equal(gx.vertex_adjacency, g.vertex_adjacency):
                            fail("unused_vertices", "edge / adjacency tables change when unused vertices are appended")
                        if np.any(gx.vertex_on_boundary[nv0:]) or not np.array_equal(gx.vertex_on_boundary[:nv0], g.vertex_on_boundary):
                            fail("unused_vertices", "boundary flags change when unused vertices are appended")
                # dtype / memory-order variants must give identical tables
                if nobl % 7 == 0:
                    for dt, order, vdt in (("int32", "C", "float64"), ("int64", "F", "int64"), ("float64", "C", "float32")):
                        g2 = rg.build_grid(api, ob, dt, order, vdt)
                        for name in ("edges", "element_edges", "edge_adjacency", "vertex_adjacency", "elements"):
                            if not np.array_equal(getattr(g, name), getattr(g2, name)):
                                fail("dtype_independence", "%s differs for elements dtype %s order %s" % (name, dt, order))
                        if not (np.abs(g.normals - g2.normals).max() <= 1e-12):   # NaN counts as a deviation
                            fail("dtype_independence", "normals differ for dtype %s" % vdt)
            except Exception as exc:  # the library must accept every grid of the universe
                fail("exception", "%s: %s" % (type(exc).__name__, exc))
            for d in drifted[:1]:
                if len(chk.drift) < 5:
                    chk.model_drift("%s: %s" % (sig, d))
            for a, b, ms in ob["req"]["edgeAdj"]:
                cases.add(("E",) + tuple(sorted(tuple(m) for m in ms)))
            for a, b, ms in ob["req"]["vertexAdj"]:
                cases.add(("V",) + tuple(ms[0]))
            nontrivial = ob["req"]["ne"] >= 2
            chk.count(sig, nontrivial)
            chk.cov["obligations_replayed"] += 1
            if nobl % 97 == 1:
                chk.sample({k: ob[k] for k in ("base", "sub", "rot", "flip", "el", "dom")})
    chk.cov["rule"] = (
        "one obligation per terminal state of GridModel (sub-complex x rotation pattern x reversal); "
        "non-trivial = at least two elements; distinct by (base, sub, rot, flip)"
    )
    chk.cov["exhaustive"] = True
    chk.cov["adjacency_cases_seen"] = {
        "edge": len([c for c in cases if c[0] == "E"]),
        "vertex": len([c for c in cases if c[0] == "V"]),
        "of": "18 edge (ordered matched-pair sets) and 9 vertex cases possible",
    }
    if chk.cov["adjacency_cases_seen"]["vertex"] < 9 or chk.cov["adjacency_cases_seen"]["edge"] < 9:
        raise common.MachineryError("universe does not exercise the adjacency cases: %s" % chk.cov["adjacency_cases_seen"])
    return chk.finish()


if __name__ == "__main__":
    common.main(body)

"""C16 Assembly results are independent of thread count and scheduling.

Spec: SpaceModel.tla (greedy colouring transcribed; ColouringValid after every step, zero-multiplier
slots alias an own DOF), Launch.tla (every interleaving of the prange iterations of one launch over
symbolic memory; NoLostUpdate, BernsteinPerLaunch, WritesInOwnCells).
Bindings: (A) every space of the SpaceModel universe is built and its colour map checked against
ValidColouring; (B) read/write footprints recorded from the shipped kernel source are fed to TLC,
which explores all schedules; plus direct observation of bitwise equality under 1, 2, 7, 16 threads.
"""

import os
import sys

sys.path.insert(0, os.path.dirname(os.path.dirname(os.path.abspath(__file__))))
from harness import common  # noqa: E402

PID = "C16"


def body():
    chk = common.Check(PID, "model_checking")
    api = common.use_repo()
    import numpy as np
    import numba
    from harness import replay_grid as rg, replay_space as rs, record_footprint as rf
    import c09

    chk.assume(
        "footprints are recorded from the kernels' Python source (py_func); the compiled code performs the same array accesses",
        "repeated read-modify-writes of one cell by one iteration are collapsed to the first (sound for conflict detection); "
        "windows of <= 3 iterations per launch, every pair of iterations that shares a written cell is put in one window",
        "thread sweep observes the installed threading layer only; the schedule quantifier is carried by the TLC model",
    )
    quick = chk.tier == "quick"
    # ---- (A) colour maps of every space in the universe --------------------------------------
    kw = dict(bases=["OCT", "STRIP8", "BOW"] if quick else ["OCT", "STRIP8", "TET", "DISJ", "BOW"], drop=1 if quick else 2, kinds=["P1", "RWG"] if quick else ["DP0", "DP1", "P1", "RWG"], rot=1)
    res = c09.tlc_spaces(chk, kw, "c16")
    if not res.ok:
        chk.violation("spec:" + str(res.violated), "TLC: SpaceModel violates %s" % res.violated, {"trace": res.trace[-2:]})
    else:
        chk.require_coverage(res, ["ColourStep", "ColourDone", "RWGEdgeStep"])
        grids = {}
        for n, ob in enumerate(res.obligations):
            gkey = (ob["base"], tuple(ob["sub"]), ob["rot"])
            if gkey not in grids:
                grids[gkey] = rg.build_grid(api, ob)
            for kind in [ob["kind"]] + (["SNC"] if ob["kind"] == "RWG" else []):
                sig = c09.sig_of(ob, kind)

                def fail(aspect, detail, ob=ob, sig=sig, kind=kind):
                    chk.violation(rs.vkey(kind, aspect, ob), "%s on %s: %s" % (aspect, sig, detail), {"obligation": {k: ob[k] for k in ob if k != "algo"}, "kind": kind})

                try:
                    sp = rs.make_space(api, grids[gkey], ob, kind)
                    rs.check_colouring(sp, fail)
                    # artificial slots must alias a dof that is real in the same element (what the colouring relies on)
                    l2g, m = sp.local2global, sp.local_multipliers
                    for e in np.flatnonzero(sp.support):
                        real = set(int(l2g[e, i]) for i in range(l2g.shape[1]) if m[e, i] != 0)
                        if not set(int(x) for x in l2g[e]) <= real:
                            fail("artificial_alias", "element %d slots %s real %s" % (e, l2g[e].tolist(), sorted(real)))
                except Exception as exc:
                    fail("exception", "%s: %s" % (type(exc).__name__, exc))
                chk.count(sig, len(ob["req"]["support"]) >= 2)
            chk.cov["obligations_replayed"] += 1
            if n % 701 == 0:
                chk.sample({"colouring_of": c09.sig_of(ob)})
    chk.part("timing", colouring_done_s=round(__import__("time").time() - chk.t0, 1))
    # ---- (B) footprints of the shipped kernels, all schedules ----------------------------------
    V = np.array([[1, 0, 0], [-1, 0, 0], [0, 2, 0], [0, -2, 0], [0, 0, 3], [0, 0, -3]], dtype=float).T
    E = np.array([[0, 2, 4], [0, 5, 2], [0, 4, 3], [0, 3, 5], [1, 4, 2], [1, 2, 5], [1, 3, 4], [1, 5, 3]]).T
    g = api.Grid(V, E, np.array([0, 5, 10, 0, 5, 10, 0, 5]))
    par = api.GLOBAL_PARAMETERS
    old = (par.quadrature.regular, par.quadrature.singular)
    par.quadrature.regular, par.quadrature.singular = 1, 2
    ops = api.operators.boundary
    P1 = api.function_space(g, "P", 1)
    P1s = api.function_space(g, "P", 1, segments=[0, 5], include_boundary_dofs=True, truncate_at_segment_edge=False)
    D0 = api.function_space(g, "DP", 0)
    D1 = api.function_space(g, "DP", 1)
    RWG = api.function_space(g, "RWG", 0)
    SNC = api.function_space(g, "SNC", 0)
    RWGs = api.function_space(g, "RWG", 0, segments=[0, 10], include_boundary_dofs=True, truncate_at_segment_edge=False)
    g2 = api.Grid(V + np.array([[7.0], [1.0], [0.0]]), E, np.array([0, 5, 10, 0, 5, 10, 0, 5]))     # a second, disjoint grid
    P1b = api.function_space(g2, "P", 1)
    P1w = api.function_space(g, "P", 1, swapped_normals=[5])
    jobs = [
        ("laplace.single_layer P1s", lambda: ops.laplace.single_layer(D0, P1s, P1s).weak_form()),
        ("laplace.single_layer P1 (two grids)", lambda: ops.laplace.single_layer(P1, P1b, P1b).weak_form()),
        ("helmholtz.hypersingular P1 (swapped normals)", lambda: ops.helmholtz.hypersingular(P1w, P1w, P1w, 0.5 + 0.2j).weak_form()),
        ("laplace.double_layer DP1", lambda: ops.laplace.double_layer(P1, D1, D1).weak_form()),
        ("laplace.hypersingular P1", lambda: ops.laplace.hypersingular(P1, P1, P1).weak_form()),
        ("sparse.identity P1", lambda: ops.sparse.identity(P1, P1, P1).weak_form()),
        ("maxwell.electric_field RWGs/SNC", lambda: ops.maxwell.electric_field(RWGs, RWGs, SNC, 0.7).weak_form()),
    ]
    if not quick:
        jobs += [
            ("helmholtz.hypersingular P1", lambda: ops.helmholtz.hypersingular(P1, P1, P1, 0.5 + 0.2j).weak_form()),
            ("modified_helmholtz.hypersingular P1", lambda: ops.modified_helmholtz.hypersingular(P1, P1, P1, 0.5).weak_form()),
            ("maxwell.magnetic_field RWG/SNC", lambda: ops.maxwell.magnetic_field(RWG, RWG, SNC, 0.7).weak_form()),
            ("sparse.laplace_beltrami P1", lambda: ops.sparse.laplace_beltrami(P1, P1, P1).weak_form()),
        ]
    rec = rf.FootprintRecorder(trace_allocations=True)
    launches = []
    linfo = {}
    fstats = {}
    for name, job in jobs:
        rec.calls = []
        rec.install()
        try:
            rec.warm = True
            job()  # warm pass: helpers get compiled for the interpreted call signatures
            rec.warm = False
            rec.calls = []
            rf.take_events()
            job()
        except Exception as exc:
            chk.violation("footprint:exception", "%s while tracing %s: %s" % (type(exc).__name__, name, exc), {"job": name})
            continue
        finally:
            rec.uninstall()
        ev = rf.take_events()
        L, st = rf.launches_from(ev, rec.calls)
        fstats[name] = st
        for l in L:
            l["id"] = len(launches) + 1
            linfo[l["id"]] = (name, l["mode"], l["iterations"])
            launches.append(l)
    # potential kernel (allocates its result itself)
    try:
        rec.calls = []
        pts = np.array([[3.0, 0.1, 0.2], [0.3, 4.0, 0.1], [0.2, 0.1, 5.0], [2.0, 2.0, 2.0]]).T
        f = api.GridFunction(P1, coefficients=np.arange(1.0, P1.global_dof_count + 1))
        rec.install()
        rec.warm = True
        api.operators.potential.laplace.single_layer(P1, pts).evaluate(f)
        rec.warm = False
        rec.calls = []
        rf.take_events()
        api.operators.potential.laplace.single_layer(P1, pts).evaluate(f)
        rec.uninstall()
        ev = rf.take_events()
        L, st = rf.launches_from(ev, rec.calls, max_cells=2)
        fstats["potential.laplace.single_layer"] = st
        for l in L:
            l["id"] = len(launches) + 1
            linfo[l["id"]] = ("potential.laplace.single_layer", l["mode"], l["iterations"])
            launches.append(l)
    except Exception as exc:
        rec.uninstall()
        chk.violation("footprint:exception", "%s while tracing the potential kernel: %s" % (type(exc).__name__, exc), {})
    par.quadrature.regular, par.quadrature.singular = old
    if not launches:
        raise common.MachineryError("no footprints recorded")
    res2, verdicts = rf.validate(launches, workers=16)
    chk.add_tlc("Launch (%d windows of recorded footprints)" % len(launches), res2)
    for l in launches:
        v = verdicts.get(l["id"])
        if not v:
            raise common.MachineryError("no verdict for launch window %d" % l["id"])
        chk.cov["traces_validated_against_impl"] += 1
        chk.count(("launch", l["id"]), len(l["threads"]) >= 2)
        bad = sorted(x for x in v if x != "accept")
        if bad:
            name, mode, its = linfo[l["id"]]
            chk.violation("schedule:%s:%s:%s" % (name.split(" ")[0], mode, bad[0]), "some schedule of iterations %s of a %s launch of %s violates %s" % (its, mode, name, bad),
                          {"window": l})
    chk.cov["footprints"] = fstats
    chk.part("timing", footprints_done_s=round(__import__("time").time() - chk.t0, 1))
    chk.sample({"launch_window": {k: launches[0][k] for k in ("mode", "iterations", "threads")}})
    # ---- (C) direct observation: bitwise equality under 1, 2, 7, 16 threads ----------------------
    g2 = g.refine() if quick else g.refine().refine().refine()
    p1 = api.function_space(g2, "P", 1)
    rwg = api.function_space(g2, "RWG", 0)
    snc = api.function_space(g2, "SNC", 0)
    d0 = api.function_space(g2, "DP", 0)
    pts = np.random.RandomState(chk.seed).rand(3, 50) * 8 + 4
    coeffs = np.random.RandomState(chk.seed + 1).rand(p1.global_dof_count)
    p1w = api.function_space(g2, "P", 1, swapped_normals=[5])       # non-constant normal multipliers
    d0w = api.function_space(g2, "DP", 0, swapped_normals=[5])

    def run_all():
        out = []
        out.append(ops.laplace.single_layer(p1, p1, p1).weak_form().to_dense())
        out.append(ops.laplace.hypersingular(p1, p1, p1).weak_form().to_dense())
        out.append(ops.helmholtz.double_layer(p1, d0, d0, 1.1).weak_form().to_dense())
        out.append(ops.maxwell.electric_field(rwg, rwg, snc, 0.9).weak_form().to_dense())
        out.append(api.operators.potential.laplace.double_layer(p1, pts).evaluate(api.GridFunction(p1, coefficients=coeffs)))
        # interleaved assemblies on spaces with swapped normals: double layer, Helmholtz hypersingular, double layer again (must equal the first)
        out.append(ops.laplace.double_layer(p1w, d0w, d0w).weak_form().to_dense())
        out.append(ops.helmholtz.hypersingular(p1w, p1w, p1w, 0.9 + 0.2j).weak_form().to_dense())
        out.append(ops.laplace.double_layer(p1w, d0w, d0w).weak_form().to_dense())
        return out

    maxthreads = numba.config.NUMBA_NUM_THREADS
    ref = None
    counts = [n for n in (1, 2, 7, 16) if n <= maxthreads]
    for rep in range(2 if quick else 4):
        for n in counts if rep % 2 == 0 else counts[::-1]:
            numba.set_num_threads(n)
            out = run_all()
            chk.count(("threads", n, rep), True)
            if not np.array_equal(out[-1], out[-3]):
                chk.violation("threads:interleaving", "a double layer assembled before and after a Helmholtz hypersingular operator on the same space (swapped normals) differs by %.3g (%d threads)" % (
                    np.abs(out[-1] - out[-3]).max(), n), {"threads": n})
            if ref is None:
                ref = out
                continue
            for k, (a, b) in enumerate(zip(ref, out)):
                if not np.array_equal(a, b):
                    chk.violation("threads:bitwise", "result %d differs between thread counts (%d threads, repetition %d): max diff %.3g" % (k, n, rep, np.abs(a - b).max()), {"threads": n})
    numba.set_num_threads(maxthreads)
    chk.cov["thread_counts"] = counts
    # ---- (D) unbounded companion: the TLAPS proof that the greedy colouring step keeps the colouring valid for every element set and
    # every symmetric conflict relation (spec/proofs/ColouringProof.tla); a proof that no longer checks is a machinery failure
    import shutil
    import subprocess
    import tempfile

    if shutil.which("tlapm"):
        d = tempfile.mkdtemp(prefix="tlaps_")
        try:
            shutil.copy(os.path.join(common.SPEC, "proofs", "ColouringProof.tla"), d)
            pr = subprocess.run(["tlapm", "ColouringProof.tla"], cwd=d, capture_output=True, text=True, timeout=900)
            out = pr.stdout + pr.stderr
            import re

            m = re.search(r"All (\d+) obligations? proved", out)
            if not m:
                raise common.MachineryError("TLAPS proof ColouringProof.tla does not check: %s" % out[-300:])
            chk.part("tlaps_colouring_proof", obligations=int(m.group(1)), theorem="Spec => []Inv (valid colouring) for arbitrary Elements and symmetric Conflict", proved=True)
        finally:
            shutil.rmtree(d, ignore_errors=True)
    else:
        chk.part("tlaps_colouring_proof", proved=False, reason="tlapm not on PATH")
    chk.cov["rule"] = ("(A) one colour-map check per space of the SpaceModel universe; (B) one TLC exploration of all interleavings per window of <= 3 "
                       "iterations of each recorded launch; (C) bitwise comparison across thread counts; non-trivial = >= 2 support elements / >= 2 threads")
    return chk.finish()


if __name__ == "__main__":
    common.main(body)

"""C15 Linear solvers return solutions of the stated system in the right spaces.

Spec: Solvers.tla (Pack -> Solve -> Unpack -> Return over the block structure; RhsLayout, SolutionLayout, ReturnShape;
the offset arithmetic of the packing helpers transcribed and checked for every block shape up to 2x2 with independent
dimensions).  Every terminal state that can be realised with a well-conditioned system is replayed into lu / gmres /
cg / compute_lu_factors.
"""

import os
import sys

sys.path.insert(0, os.path.dirname(os.path.dirname(os.path.abspath(__file__))))
from harness import common  # noqa: E402

PID = "C15"
CFG = """SPECIFICATION Spec
CONSTANTS
  Dims = {%s}
  Solvers_ = {"lu", "lu_factors", "gmres", "cg"}
  DualDims = {2}
  SliceBy = "global"
  SwapBlockedSettings = FALSE
  DtypeRule = "all"
  EmitJson = TRUE
INVARIANT RhsLayout
INVARIANT SolutionLayout
INVARIANT RhsKeepsComplex
INVARIANT SettingsHandedOn
INVARIANT ReturnShape
INVARIANT Emit
CHECK_DEADLOCK FALSE
"""


def body():
    chk = common.Check(PID, "model_checking")
    api = common.use_repo()
    import numpy as np
    import warnings

    warnings.simplefilter("ignore")
    chk.assume(
        "abstract dimensions 2, 3, 5 are realised by the spaces P1 (8 dofs), DP0 (12), DP1 (36) on the 12-element box",
        "block (i,j) is identity + 0.3 single layer when domain_j and dual_i have the same dimension and 0.05 single layer otherwise; "
        "configurations whose dual (resp. range) dimensions are not a permutation of the domain dimensions cannot be made well conditioned "
        "this way and are counted, not replayed",
        "cg is judged only when the system matrix handed to it (weak form, or strong form M^-1 A) is symmetric positive definite, the premise of the property; "
        "the strong form is symmetric for DP0 on the unit cube (M a multiple of the identity), which realises dimension 3 for cg / strong form",
        "whether a restarted or truncated Krylov iteration reaches the tolerance is a property of the method: info, iteration count, residual history and "
        "solution are judged against SciPy run on the same discrete operator and right-hand side with the same settings; info = 0 must imply the tolerance",
    )
    quick = chk.tier == "quick"
    tmpcfg = os.path.join(common.SPEC, "_c15_%d.cfg" % os.getpid())
    with open(tmpcfg, "w") as f:
        f.write(CFG % ("2, 3" if quick else "2, 3, 5"))
    try:
        res = common.run_tlc("Solvers", os.path.basename(tmpcfg), timeout=3000)
    finally:
        os.remove(tmpcfg)
    chk.add_tlc("Solvers", res)
    if not res.ok:
        chk.violation("spec:" + str(res.violated), "TLC: Solvers violates %s" % res.violated, {"trace": res.trace[-1:]})
        return chk.finish()
    chk.require_coverage(res, ["Pack", "Solve", "Unpack", "Return"])
    for cfgname, inv in (("Solvers_neg_slice.cfg", "SolutionLayout"), ("Solvers_neg_settings.cfg", "SettingsHandedOn"), ("Solvers_neg_dtype.cfg", "RhsKeepsComplex")):
        neg = common.run_tlc("Solvers", cfgname, timeout=1200)
        chk.add_tlc("Solvers negative configuration %s" % cfgname, neg, note="must violate %s" % inv)
        if neg.ok or inv not in str(neg.violated):
            raise common.MachineryError("negative configuration %s: expected a violation of %s, got %s" % (cfgname, inv, neg.violated))
    V = np.array([[0, 0, 0], [1, 0, 0], [0, 2, 0], [1, 2, 0], [0, 0, 3], [1, 0, 3], [0, 2, 3], [1, 2, 3]], dtype=float).T
    E = (np.array([[1, 4, 2], [1, 3, 4], [5, 6, 7], [6, 8, 7], [1, 2, 5], [2, 6, 5], [3, 8, 4], [3, 7, 8], [1, 7, 3], [1, 5, 7], [2, 4, 6], [4, 8, 6]]) - 1).T
    g = api.Grid(V, E)
    sp = {2: api.function_space(g, "P", 1), 3: api.function_space(g, "DP", 0), 5: api.function_space(g, "DP", 1)}
    # cg needs a symmetric positive definite system matrix; the strong form M^-1 A of a symmetric weak form is symmetric only when M is a
    # multiple of the identity: DP0 on the unit cube (12 congruent elements) realises dimension 3 for the cg / strong-form configurations
    g_cube = api.Grid(V / np.array([[1.0], [2.0], [3.0]]), E)
    sp_cube = {3: api.function_space(g_cube, "DP", 0)}
    lap = api.operators.boundary.laplace
    ident = api.operators.boundary.sparse.identity
    cache = {}

    def block(dj, ri, di, cplx):
        key = (dj, ri, di, cplx)
        if key not in cache:
            sl = lap.single_layer(sp[dj], sp[ri], sp[di]) if not cplx else api.operators.boundary.helmholtz.single_layer(sp[dj], sp[ri], sp[di], 0.9 + 0.2j)
            cache[key] = (ident(sp[dj], sp[ri], sp[di]) + 0.3 * sl) if dj == di else 0.05 * sl
        return cache[key]

    rng = np.random.RandomState(chk.seed)
    skipped = 0
    seen = set()
    for n, ob in enumerate(res.obligations):
        c = ob["cfg"]
        rows, cols = c["shape"]
        dom, ran, dua = c["dom"][:cols], c["ran"][:rows], c["dua"][:rows]
        test_dims = ran if c["strong"] else dua
        if sorted(test_dims) != sorted(dom):
            skipped += 1
            continue
        sig = (c["solver"], c["blocked"], rows, cols, c["strong"], c["rr"], c["rc"], tuple(dom), tuple(ran), tuple(dua))
        if sig in seen:
            continue
        seen.add(sig)
        if quick and c["solver"] == "gmres" and len(seen) % 2 == 0 and rows * cols == 4:
            continue
        for cplx in (False, True) if (n % 5 == 0 and c["solver"] != "cg") else (False,):
            label = "%s %s %dx%d strong=%s dom=%s ran=%s dual=%s%s" % (c["solver"], "blocked" if c["blocked"] else "single", rows, cols, c["strong"], dom, ran, dua, " complex" if cplx else "")
            key = "%s:%s:%s" % (c["solver"], "blocked" if c["blocked"] else "single", "strong" if c["strong"] else "weak")

            def fail(aspect, detail, ob=ob, label=label, key=key):
                chk.violation("%s:%s" % (key, aspect), "%s: %s" % (label, detail), {"obligation": ob})

            try:
                if c["blocked"]:
                    A = api.BlockedOperator(rows, cols)
                    for i in range(rows):
                        for j in range(cols):
                            A[i, j] = block(dom[j], ran[i], dua[i], cplx)
                    fs = [api.GridFunction(sp[d], coefficients=rng.randint(-3, 4, sp[d].global_dof_count).astype(float) + (1j * rng.randint(-3, 4, sp[d].global_dof_count) if cplx else 0)) for d in dom]
                    b = A * fs
                    truth = np.concatenate([f.coefficients for f in fs])
                    Wd = A.weak_form().to_dense()
                else:
                    spx = sp_cube if (c["solver"] == "cg" and c["strong"] and dom == [3] and ran == [3] and dua == [3]) else sp
                    if c["solver"] == "cg":
                        A = lap.single_layer(spx[dom[0]], spx[ran[0]], spx[dua[0]])
                    else:
                        A = block(dom[0], ran[0], dua[0], cplx)
                    f0 = api.GridFunction(spx[dom[0]], coefficients=rng.randint(-3, 4, sp[dom[0]].global_dof_count).astype(float) + (1j * rng.randint(-3, 4, sp[dom[0]].global_dof_count) if cplx else 0))
                    fs = [f0]
                    b = A * f0
                    truth = f0.coefficients
                    Wd = A.weak_form().to_dense()
                cond = np.linalg.cond(Wd)
                if cond > 1e6:
                    chk.part("ill_conditioned_skipped", n=1)
                    continue
                bvec_weak = Wd.dot(truth)
                if c["solver"] == "cg":
                    Sys = np.asarray(A.strong_form().to_dense()) if c["strong"] else np.asarray(Wd)
                    if np.abs(Sys - Sys.T).max() > 1e-10 * np.abs(Sys).max() or np.linalg.eigvalsh((Sys + Sys.T) / 2).min() <= 0:
                        chk.part("cg_premise_not_met", n=1)     # the system matrix handed to cg is not symmetric positive definite: not judged
                        continue

                def unpack(sol):
                    sols = sol if isinstance(sol, (list, tuple)) else [sol]
                    if len(sols) != cols:
                        fail("solution_layout", "%d solution functions for %d block columns" % (len(sols), cols))
                        return None
                    for k, s in enumerate(sols):
                        if s.space != (spx if not c["blocked"] else sp)[dom[k]]:
                            fail("solution_space", "solution %d does not live in the domain space of column %d" % (k, k))
                            return None
                    return np.concatenate([s.coefficients for s in sols])

                if c["solver"] in ("lu", "lu_factors"):
                    chk.count(label, True)
                    chk.cov["obligations_replayed"] += 1
                    if c["solver"] == "lu":
                        x = unpack(api.lu(A, b))
                    else:
                        fac = api.compute_lu_factors(A)
                        x = unpack(api.lu(A, b, lu_factor=fac))
                        x2 = unpack(api.lu(A, b))
                        if x is not None and x2 is not None and np.abs(x - x2).max() > 1e-12 * max(1.0, np.abs(x2).max()):
                            fail("factors", "solve with precomputed LU factors differs from the direct solve by %.3g" % np.abs(x - x2).max())
                    if x is not None and np.abs(x - truth).max() > 1e-13 * cond * max(1.0, np.abs(truth).max()):
                        fail("accuracy", "lu(A, A*f) differs from f by %.3g (condition number %.3g)" % (np.abs(x - truth).max(), cond))
                    continue
                variants = [(1e-8, None, None)] if quick else [(1e-4, None, None), (1e-8, 5, None), (1e-12, None, None)]
                variants.append((1e-10, None, 2))  # iteration budget exhausted
                for tol, restart, maxiter in variants:
                    chk.count(label + " tol=%g restart=%s maxiter=%s" % (tol, restart, maxiter), True)
                    chk.cov["obligations_replayed"] += 1
                    kw = dict(tol=tol, maxiter=maxiter, use_strong_form=c["strong"], return_residuals=c["rr"], return_iteration_count=c["rc"])
                    if c["solver"] == "gmres":
                        out = api.gmres(A, b, restart=restart, **kw)
                    else:
                        out = api.cg(A, b, **kw)
                    want = ob["ret"]
                    if not isinstance(out, tuple) or len(out) != len(want):
                        fail("return_shape", "returned %s values, expected %s" % (len(out) if isinstance(out, tuple) else 1, want))
                        continue
                    rec = dict(zip(want, out))
                    x = unpack(rec["solution"])
                    info = rec["info"]
                    if x is None:
                        continue
                    if "residuals" in rec and "count" in rec and len(rec["residuals"]) != rec["count"]:
                        fail("residual_count", "len(residuals) = %d but count = %d" % (len(rec["residuals"]), rec["count"]))
                    if "count" in rec and (not isinstance(rec["count"], (int, np.integer)) or rec["count"] < 0):
                        fail("count", "iteration count %r" % (rec["count"],))
                    # reference: SciPy on the same discrete operator and right-hand side with the same settings.  Whether a restarted or
                    # truncated iteration converges is a property of the method, not of the wrapper: info, iteration count, recorded
                    # residuals and solution must be those of the reference run, and info = 0 must mean the tolerance is met.
                    import scipy.sparse.linalg as ssl
                    from bempp_cl.api.assembly.blocked_operator import coefficients_from_grid_functions_list, projections_from_grid_functions_list

                    if c["strong"]:
                        A_op = A.strong_form()
                        Sys = np.asarray(A_op.to_dense())
                        b_vec = coefficients_from_grid_functions_list(b) if c["blocked"] else b.coefficients
                    else:
                        A_op = A.weak_form()
                        Sys = np.asarray(Wd)
                        b_vec = projections_from_grid_functions_list(b, A.dual_to_range_spaces) if c["blocked"] else b.projections(A.dual_to_range)
                    if not (np.abs(b_vec - Sys.dot(truth)).max() <= 1e-10 * max(1e-12, np.abs(Sys.dot(truth)).max())):   # NaN counts as a deviation
                        fail("rhs_layout", "the right-hand side vector of A*f is not (system matrix) . f")
                        continue
                    ref_res = []
                    if c["solver"] == "gmres":
                        xr, info_r = ssl.gmres(A_op, b_vec, rtol=tol, restart=restart, maxiter=maxiter, callback=lambda v: ref_res.append(float(np.linalg.norm(v))))
                    else:
                        xr, info_r = ssl.cg(A_op, b_vec, rtol=tol, maxiter=maxiter, callback=lambda v: ref_res.append(float(np.linalg.norm(b_vec - A_op * v))))
                    r = np.linalg.norm(Sys.dot(x) - b_vec) / np.linalg.norm(b_vec)
                    if info != info_r:
                        fail("info", "info = %s, SciPy on the same system with the same settings: %s (tol %g restart %s maxiter %s)" % (info, info_r, tol, restart, maxiter))
                    if "count" in rec and rec["count"] != len(ref_res):
                        fail("count", "iteration count %s, SciPy on the same system with the same settings ran %d iterations" % (rec["count"], len(ref_res)))
                    if "residuals" in rec and (len(rec["residuals"]) != len(ref_res) or (ref_res and np.abs(np.array(rec["residuals"]) - np.array(ref_res)).max() > 1e-9 * max(ref_res))):
                        fail("residuals", "recorded residuals differ from those of the iteration that was run (%d values, reference %d)" % (len(rec["residuals"]), len(ref_res)))
                    if not (np.abs(x - xr.ravel()).max() <= 1e-10 * max(1.0, np.abs(xr).max())):   # NaN counts as a deviation
                        fail("solution", "solution differs from SciPy's on the same system by %.3g" % np.abs(x - xr.ravel()).max())
                    if info == 0 and r > tol * 1.0001:
                        fail("tolerance", "info = 0 but the true relative residual is %.3g > tol %g" % (r, tol))
                    if info_r == 0:
                        chk.cov["parts"].setdefault("converged_variants", {"n": 0})["n"] += 1
            except Exception as exc:
                fail("exception", "%s: %s" % (type(exc).__name__, str(exc)[:200]))
        if len(chk.cov["samples"]) < 3:
            chk.sample(ob)
    # ---- directed cases -------------------------------------------------------------------------------------------------------
    # (a) restart / maxiter are handed to SciPy as given: the library's outputs equal those of scipy.sparse.linalg.gmres on the same
    #     discrete system with the same settings (iteration count, info, solution), single and blocked
    import scipy.sparse.linalg

    class Counter(object):
        def __init__(self):
            self.n = 0

        def __call__(self, x):
            self.n += 1

    for blocked in (False, True):
        try:
            if blocked:
                A = api.BlockedOperator(2, 2)
                A[0, 0], A[0, 1], A[1, 0], A[1, 1] = block(2, 2, 2, False), block(3, 2, 2, False), block(2, 3, 3, False), block(3, 3, 3, False)
                fs = [api.GridFunction(sp[d], coefficients=rng.randint(-3, 4, sp[d].global_dof_count).astype(float)) for d in (2, 3)]
                b = A * fs
                from bempp_cl.api.assembly.blocked_operator import projections_from_grid_functions_list

                bvec = projections_from_grid_functions_list(b, A.dual_to_range_spaces)
            else:
                A = block(5, 5, 5, False)
                f0 = api.GridFunction(sp[5], coefficients=rng.randint(-3, 4, sp[5].global_dof_count).astype(float))
                b = A * f0
                bvec = b.projections(sp[5])
            W = A.weak_form()
            for restart, maxiter in ((3, 200), (200, 3), (2, 2), (5, None), (None, 4)):
                label = "gmres %s restart=%s maxiter=%s" % ("blocked 2x2" if blocked else "single", restart, maxiter)
                chk.count(label, True)
                cb = Counter()
                xs, infos = scipy.sparse.linalg.gmres(W, bvec, rtol=1e-9, restart=restart, maxiter=maxiter, callback=cb)
                sol, info, res_, cnt = api.gmres(A, b, tol=1e-9, restart=restart, maxiter=maxiter, return_residuals=True, return_iteration_count=True)
                x = np.concatenate([f.coefficients for f in sol]) if blocked else sol.coefficients
                if info != infos or cnt != cb.n or len(res_) != cnt:
                    chk.violation("gmres:%s:settings" % ("blocked" if blocked else "single"), "%s: info %s after %d iterations (%d residuals), SciPy with the same settings on the same system: info %s after %d iterations" % (
                        label, info, cnt, len(res_), infos, cb.n), {"restart": restart, "maxiter": maxiter, "blocked": blocked})
                elif not (np.abs(x - xs).max() <= 1e-12 * max(1.0, np.abs(xs).max())):   # NaN counts as a deviation
                    chk.violation("gmres:%s:settings" % ("blocked" if blocked else "single"), "%s: solution differs from SciPy's on the same system by %.3g" % (label, np.abs(x - xs).max()), {"restart": restart, "maxiter": maxiter})
        except Exception as exc:
            chk.violation("gmres:settings:exception", "%s: %s" % (type(exc).__name__, str(exc)[:200]), {"blocked": blocked})
    # (b) blocked systems whose domain spaces include dual-grid spaces (global dof count differs from the dof count on the barycentric grid)
    try:
        d0 = api.function_space(g, "DUAL", 0)
        p1 = sp[2]
        for order in ((d0, p1), (p1, d0)):
            s0, s1 = order
            du0, du1 = (p1, d0) if s0 is d0 else (d0, p1)
            A = api.BlockedOperator(2, 2)
            A[0, 0], A[0, 1] = ident(s0, s0, du0), 0.1 * ident(s1, s0, du0)
            A[1, 0], A[1, 1] = 0.1 * ident(s0, s1, du1), ident(s1, s1, du1)
            for cplx in (False, True):
                fs = [api.GridFunction(s_, coefficients=rng.randint(-3, 4, s_.global_dof_count).astype(float) + (1j * rng.randint(-3, 4, s_.global_dof_count) if cplx else 0)) for s_ in order]
                truth = np.concatenate([f.coefficients for f in fs])
                b = A * fs
                for name, solve in (("lu", lambda: api.lu(A, b)), ("lu_factors", lambda: api.lu(A, b, lu_factor=api.compute_lu_factors(A))),
                                    ("gmres weak", lambda: api.gmres(A, b, tol=1e-12)[0]), ("gmres strong", lambda: api.gmres(A, b, tol=1e-12, use_strong_form=True)[0])):
                    label = "%s blocked 2x2 on (%s, %s)%s" % (name, "DUAL0" if s0 is d0 else "P1", "P1" if s0 is d0 else "DUAL0", " complex" if cplx else "")
                    chk.count(label, True)
                    sol = solve()
                    if len(sol) != 2 or sol[0].space != s0 or sol[1].space != s1 or any(len(f.coefficients) != f.space.global_dof_count for f in sol):
                        chk.violation("dual_spaces:layout", "%s: solution functions do not have the layout of the domain spaces (coefficient lengths %s for %s dofs)" % (
                            label, [len(f.coefficients) for f in sol], [s_.global_dof_count for s_ in order]), {})
                        continue
                    e_ = np.abs(np.concatenate([f.coefficients for f in sol]) - truth).max()
                    if not (e_ <= 1e-8 * max(1.0, np.abs(truth).max())):   # NaN counts as a deviation
                        chk.violation("dual_spaces:accuracy", "%s: solution differs from f by %.3g" % (label, e_), {})
    except Exception as exc:
        chk.violation("dual_spaces:exception", "%s: %s" % (type(exc).__name__, str(exc)[:200]), {})
    # (c) right-hand sides whose entries have different dtypes (RhsKeepsComplex): the stacked vector keeps every imaginary part
    try:
        A = api.BlockedOperator(2, 2)
        A[0, 0], A[0, 1], A[1, 0], A[1, 1] = block(2, 2, 2, False), block(3, 2, 2, False), block(2, 3, 3, False), block(3, 3, 3, False)
        Wd = np.asarray(A.weak_form().to_dense())
        for dts in (("c", "r"), ("r", "c"), ("c", "c"), ("r", "r")):
            ps = [rng.randint(-3, 4, sp[d].global_dof_count).astype(float) + (1j * rng.randint(-3, 4, sp[d].global_dof_count) if t_ == "c" else 0) for d, t_ in zip((2, 3), dts)]
            b = [api.GridFunction(sp[d], projections=p_, dual_space=sp[d]) for d, p_ in zip((2, 3), ps)]
            want = np.linalg.solve(Wd, np.concatenate(ps))
            for name, solve in (("lu", lambda: api.lu(A, b)), ("lu_factors", lambda: api.lu(A, b, lu_factor=api.compute_lu_factors(A))), ("gmres weak", lambda: api.gmres(A, b, tol=1e-12)[0])):
                label = "%s blocked 2x2, right-hand side entries of dtypes %s" % (name, dts)
                chk.count(label, True)
                sol = solve()
                x = np.concatenate([f.coefficients for f in sol])
                e_ = np.abs(x - want).max() / max(1.0, np.abs(want).max())
                if not (e_ <= 1e-8):   # NaN counts as a deviation
                    chk.violation("rhs_dtype:%s" % name.split(" ")[0], "%s: solution differs from the solution of the stacked system by %.3g (an imaginary part was dropped?)" % (label, e_), {"dtypes": dts})
    except Exception as exc:
        chk.violation("rhs_dtype:exception", "%s: %s" % (type(exc).__name__, str(exc)[:200]), {})
    # (d) single operators whose dual space differs from the range space, right-hand side given by coefficients (its own dual space is
    #     the range space): RhsLayout demands the projections onto the operator's dual space, with and without precomputed factors
    try:
        d0 = api.function_space(g, "DUAL", 0)
        p1 = sp[2]
        A = ident(p1, p1, d0)
        cvec = rng.randint(-3, 4, p1.global_dof_count).astype(float) + 1j * rng.randint(-3, 4, p1.global_dof_count)
        b = api.GridFunction(p1, coefficients=cvec)
        sols = {"lu": api.lu(A, b), "lu_factors": api.lu(A, b, lu_factor=api.compute_lu_factors(A)), "gmres": api.gmres(A, b, tol=1e-12)[0]}
        for name, sol in sols.items():
            chk.count("%s single operator with dual != range, coefficient right-hand side" % name, True)
            e_ = np.abs(sol.coefficients - cvec).max()
            if sol.space != p1 or e_ > 1e-8 * max(1.0, np.abs(cvec).max()):
                chk.violation("rhs_dual:%s" % name, "%s(identity(P1, P1, DUAL0), f) with f given by coefficients does not return f (off by %.3g): the right-hand side was not projected onto the operator's dual space" % (name, e_), {})
    except Exception as exc:
        chk.violation("rhs_dual:exception", "%s: %s" % (type(exc).__name__, str(exc)[:200]), {})
    chk.cov["rule"] = "one obligation per terminal state of Solvers (solver x block shape x dimensions x form x return flags) realisable as a well-conditioned system, times tolerance/restart/maxiter variants"
    chk.cov["unrealisable_configurations"] = skipped
    return chk.finish()


if __name__ == "__main__":
    common.main(body)

"""C15 Linear solvers return solutions of the stated system in the right spaces.

Spec: Solvers.tla (Pack -> Solve -> Unpack -> Return over the block structure; RhsLayout, SolutionLayout, ReturnShape;
the offset arithmetic of the packing helpers transcribed and checked for every block shape up to 2x2 with independent
dimensions).  Every terminal state that can be realised with a well-conditioned system is replayed into lu / gmres /
cg / compute_lu_factors.
"""

import os
import sys

sys.path.insert(0, os.path.dirname(os.path.dirname(os.path.abspath(__file__))))
from harness import common  # noqa: E402

PID = "C15"
CFG = """SPECIFICATION Spec
CONSTANTS
  Dims = {%s}
  Solvers_ = {"lu", "lu_factors", "gmres", "cg"}
  EmitJson = TRUE
INVARIANT RhsLayout
INVARIANT SolutionLayout
INVARIANT ReturnShape
INVARIANT Emit
CHECK_DEADLOCK FALSE
"""


def body():
    chk = common.Check(PID, "model_checking")
    api = common.use_repo()
    import numpy as np
    import warnings

    warnings.simplefilter("ignore")
    chk.assume(
        "abstract dimensions 2, 3, 5 are realised by the spaces P1 (8 dofs), DP0 (12), DP1 (36) on the 12-element box",
        "block (i,j) is identity + 0.3 single layer when domain_j and dual_i have the same dimension and 0.05 single layer otherwise; "
        "configurations whose dual (resp. range) dimensions are not a permutation of the domain dimensions cannot be made well conditioned "
        "this way and are counted, not replayed",
        "SciPy's gmres uses legacy callbacks: one call per inner iteration with the relative preconditioned residual",
    )
    quick = chk.tier == "quick"
    tmpcfg = os.path.join(common.SPEC, "_c15_%d.cfg" % os.getpid())
    with open(tmpcfg, "w") as f:
        f.write(CFG % ("2, 3" if quick else "2, 3, 5"))
    try:
        res = common.run_tlc("Solvers", os.path.basename(tmpcfg), timeout=3000)
    finally:
        os.remove(tmpcfg)
    chk.add_tlc("Solvers", res)
    if not res.ok:
        chk.violation("spec:" + str(res.violated), "TLC: Solvers violates %s" % res.violated, {"trace": res.trace[-1:]})
        return chk.finish()
    chk.require_coverage(res, ["Pack", "Solve", "Unpack", "Return"])
    V = np.array([[0, 0, 0], [1, 0, 0], [0, 2, 0], [1, 2, 0], [0, 0, 3], [1, 0, 3], [0, 2, 3], [1, 2, 3]], dtype=float).T
    E = (np.array([[1, 4, 2], [1, 3, 4], [5, 6, 7], [6, 8, 7], [1, 2, 5], [2, 6, 5], [3, 8, 4], [3, 7, 8], [1, 7, 3], [1, 5, 7], [2, 4, 6], [4, 8, 6]]) - 1).T
    g = api.Grid(V, E)
    sp = {2: api.function_space(g, "P", 1), 3: api.function_space(g, "DP", 0), 5: api.function_space(g, "DP", 1)}
    lap = api.operators.boundary.laplace
    ident = api.operators.boundary.sparse.identity
    cache = {}

    def block(dj, ri, di, cplx):
        key = (dj, ri, di, cplx)
        if key not in cache:
            sl = lap.single_layer(sp[dj], sp[ri], sp[di]) if not cplx else api.operators.boundary.helmholtz.single_layer(sp[dj], sp[ri], sp[di], 0.9 + 0.2j)
            cache[key] = (ident(sp[dj], sp[ri], sp[di]) + 0.3 * sl) if dj == di else 0.05 * sl
        return cache[key]

    rng = np.random.RandomState(chk.seed)
    skipped = 0
    seen = set()
    for n, ob in enumerate(res.obligations):
        c = ob["cfg"]
        rows, cols = c["shape"]
        dom, ran, dua = c["dom"][:cols], c["ran"][:rows], c["dua"][:rows]
        test_dims = ran if c["strong"] else dua
        if sorted(test_dims) != sorted(dom):
            skipped += 1
            continue
        sig = (c["solver"], c["blocked"], rows, cols, c["strong"], c["rr"], c["rc"], tuple(dom), tuple(ran), tuple(dua))
        if sig in seen:
            continue
        seen.add(sig)
        if quick and c["solver"] == "gmres" and len(seen) % 2 == 0 and rows * cols == 4:
            continue
        for cplx in (False, True) if (n % 5 == 0 and c["solver"] != "cg") else (False,):
            label = "%s %s %dx%d strong=%s dom=%s ran=%s dual=%s%s" % (c["solver"], "blocked" if c["blocked"] else "single", rows, cols, c["strong"], dom, ran, dua, " complex" if cplx else "")
            key = "%s:%s:%s" % (c["solver"], "blocked" if c["blocked"] else "single", "strong" if c["strong"] else "weak")

            def fail(aspect, detail, ob=ob, label=label, key=key):
                chk.violation("%s:%s" % (key, aspect), "%s: %s" % (label, detail), {"obligation": ob})

            try:
                if c["blocked"]:
                    A = api.BlockedOperator(rows, cols)
                    for i in range(rows):
                        for j in range(cols):
                            A[i, j] = block(dom[j], ran[i], dua[i], cplx)
                    fs = [api.GridFunction(sp[d], coefficients=rng.randint(-3, 4, sp[d].global_dof_count).astype(float) + (1j * rng.randint(-3, 4, sp[d].global_dof_count) if cplx else 0)) for d in dom]
                    b = A * fs
                    truth = np.concatenate([f.coefficients for f in fs])
                    Wd = A.weak_form().to_dense()
                else:
                    if c["solver"] == "cg":
                        A = lap.single_layer(sp[dom[0]], sp[ran[0]], sp[dua[0]])
                    else:
                        A = block(dom[0], ran[0], dua[0], cplx)
                    f0 = api.GridFunction(sp[dom[0]], coefficients=rng.randint(-3, 4, sp[dom[0]].global_dof_count).astype(float) + (1j * rng.randint(-3, 4, sp[dom[0]].global_dof_count) if cplx else 0))
                    fs = [f0]
                    b = A * f0
                    truth = f0.coefficients
                    Wd = A.weak_form().to_dense()
                cond = np.linalg.cond(Wd)
                if cond > 1e6:
                    chk.part("ill_conditioned_skipped", n=1)
                    continue
                bvec_weak = Wd.dot(truth)

                def unpack(sol):
                    sols = sol if isinstance(sol, (list, tuple)) else [sol]
                    if len(sols) != cols:
                        fail("solution_layout", "%d solution functions for %d block columns" % (len(sols), cols))
                        return None
                    for k, s in enumerate(sols):
                        if s.space != sp[dom[k]]:
                            fail("solution_space", "solution %d does not live in the domain space of column %d" % (k, k))
                            return None
                    return np.concatenate([s.coefficients for s in sols])

                if c["solver"] in ("lu", "lu_factors"):
                    chk.count(label, True)
                    chk.cov["obligations_replayed"] += 1
                    if c["solver"] == "lu":
                        x = unpack(api.lu(A, b))
                    else:
                        fac = api.compute_lu_factors(A)
                        x = unpack(api.lu(A, b, lu_factor=fac))
                        x2 = unpack(api.lu(A, b))
                        if x is not None and x2 is not None and np.abs(x - x2).max() > 1e-12 * max(1.0, np.abs(x2).max()):
                            fail("factors", "solve with precomputed LU factors differs from the direct solve by %.3g" % np.abs(x - x2).max())
                    if x is not None and np.abs(x - truth).max() > 1e-13 * cond * max(1.0, np.abs(truth).max()):
                        fail("accuracy", "lu(A, A*f) differs from f by %.3g (condition number %.3g)" % (np.abs(x - truth).max(), cond))
                    continue
                variants = [(1e-8, None, None)] if quick else [(1e-4, None, None), (1e-8, 5, None), (1e-12, None, None)]
                variants.append((1e-10, None, 2))  # iteration budget exhausted
                for tol, restart, maxiter in variants:
                    chk.count(label + " tol=%g restart=%s maxiter=%s" % (tol, restart, maxiter), True)
                    chk.cov["obligations_replayed"] += 1
                    kw = dict(tol=tol, maxiter=maxiter, use_strong_form=c["strong"], return_residuals=c["rr"], return_iteration_count=c["rc"])
                    if c["solver"] == "gmres":
                        out = api.gmres(A, b, restart=restart, **kw)
                    else:
                        out = api.cg(A, b, **kw)
                    want = ob["ret"]
                    if not isinstance(out, tuple) or len(out) != len(want):
                        fail("return_shape", "returned %s values, expected %s" % (len(out) if isinstance(out, tuple) else 1, want))
                        continue
                    rec = dict(zip(want, out))
                    x = unpack(rec["solution"])
                    info = rec["info"]
                    if x is None:
                        continue
                    if "residuals" in rec and "count" in rec and len(rec["residuals"]) != rec["count"]:
                        fail("residual_count", "len(residuals) = %d but count = %d" % (len(rec["residuals"]), rec["count"]))
                    if "count" in rec and (not isinstance(rec["count"], (int, np.integer)) or rec["count"] < 0):
                        fail("count", "iteration count %r" % (rec["count"],))
                    if c["strong"]:
                        Sd = A.strong_form().to_dense()
                        bvec = Sd.dot(truth)
                        r = np.linalg.norm(Sd.dot(x) - bvec) / np.linalg.norm(bvec)
                    else:
                        r = np.linalg.norm(Wd.dot(x) - bvec_weak) / np.linalg.norm(bvec_weak)
                    if maxiter is None:
                        if info != 0:
                            fail("info", "info = %s for tol %g without iteration limit (relative residual %.3g)" % (info, tol, r))
                        elif r > tol * 1.0001:
                            fail("tolerance", "info = 0 but the true relative residual is %.3g > tol %g" % (r, tol))
                        if "residuals" in rec and rec["residuals"]:
                            last = rec["residuals"][-1] / (np.linalg.norm(bvec if c["strong"] else bvec_weak) if c["solver"] == "cg" else 1.0)
                            if last > tol * 1.0001:
                                fail("residuals", "info = 0 but the last recorded residual %.3g exceeds tol %g" % (last, tol))
                    else:
                        if info == 0 and r > tol * 1.0001:
                            fail("tolerance", "info = 0 with maxiter=%d but the relative residual is %.3g" % (maxiter, r))
                        if "count" in rec and c["solver"] == "cg" and rec["count"] > maxiter:
                            fail("count", "cg ran %d iterations with maxiter=%d" % (rec["count"], maxiter))
            except Exception as exc:
                fail("exception", "%s: %s" % (type(exc).__name__, str(exc)[:200]))
        if len(chk.cov["samples"]) < 3:
            chk.sample(ob)
    chk.cov["rule"] = "one obligation per terminal state of Solvers (solver x block shape x dimensions x form x return flags) realisable as a well-conditioned system, times tolerance/restart/maxiter variants"
    chk.cov["unrealisable_configurations"] = skipped
    return chk.finish()


if __name__ == "__main__":
    common.main(body)

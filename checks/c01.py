"""C01 Laplace boundary operators satisfy the Calderon identities on any polyhedron.

Spec: Polycube.tla (closed, outward oriented, genus 0/1 surfaces - premises proved by TLC),
GalerkinExact/GalerkinModel.tla (exact matrices of polynomial probe kernels), Assembly.tla +
AssemblyTrace.tla (every element pair integrated exactly once by the rule class of its adjacency,
singularity on the shared entity).  Bindings: recorded assembly plans validated by TLC; probe
kernels through the public API compared with the exact matrices; the identity itself evaluated
at the top of the stated order range against the property's own 1e-6.
"""

import os
import sys

sys.path.insert(0, os.path.dirname(os.path.dirname(os.path.abspath(__file__))))
from harness import common  # noqa: E402

PID = "C01"

CFG = """SPECIFICATION Spec
CONSTANTS
  BoxDims <- %(boxes)s
  Extra <- %(extra)s
  Patterns = {%(pats)s}
  MeshBases = {%(bases)s}
  MaxCells = %(maxcells)d
  EmitJson = TRUE
INVARIANT Premises
INVARIANT OracleSane
INVARIANT GaussTheorem
INVARIANT Emit
CHECK_DEADLOCK FALSE
"""


def galerkin_obligations(chk, tag, boxes, extra, pats, bases, maxcells, timeout=3000):
    from harness import replay_galerkin as rgal

    tmpcfg = os.path.join(common.SPEC, "_%s_%d.cfg" % (tag, os.getpid()))
    with open(tmpcfg, "w") as f:
        f.write(CFG % dict(boxes=boxes, extra=extra, pats=", ".join(map(str, pats)),
                           bases=", ".join('"%s"' % b for b in bases), maxcells=maxcells))
    try:
        res = common.run_tlc("GalerkinModel", os.path.basename(tmpcfg), timeout=timeout)
    finally:
        os.remove(tmpcfg)
    chk.add_tlc("GalerkinModel %s/%s" % (boxes, extra), res)
    if not res.ok:
        chk.violation("spec:" + str(res.violated), "TLC: GalerkinModel violates %s" % res.violated, {"trace": res.trace[-2:]})
        return []
    chk.require_coverage(res, ["Next"])
    return rgal.collect(res.obligations)


def residuals(api, g, P1, D0, orders, affine):
    """Relative residuals of the two Calderon identities for each affine function."""
    import numpy as np

    lap = api.operators.boundary.laplace
    sparse = api.operators.boundary.sparse
    par = api.GLOBAL_PARAMETERS
    old = (par.quadrature.regular, par.quadrature.singular)
    par.quadrature.regular, par.quadrature.singular = orders
    try:
        V = lap.single_layer(D0, D0, D0).weak_form().to_dense()
        K = lap.double_layer(P1, D0, D0).weak_form().to_dense()
        M = sparse.identity(P1, D0, D0).weak_form().to_dense()
        W = lap.hypersingular(P1, P1, P1).weak_form().to_dense()
        Kt = lap.adjoint_double_layer(D0, P1, P1).weak_form().to_dense()
        Mt = sparse.identity(D0, P1, P1).weak_form().to_dense()
    finally:
        par.quadrature.regular, par.quadrature.singular = old
    from harness import replay_galerkin as rgal

    el = g.elements.T.astype(int)
    vert = rgal.entity_map(P1, "P1", el)
    out = []
    for a, b in affine:
        a = np.asarray(a, dtype=float)
        gv = g.vertices[:, vert].T.dot(a) + b
        psi = g.normals.dot(a)
        r1 = (0.5 * M + K).dot(gv) - V.dot(psi)
        r2 = W.dot(gv) - (0.5 * Mt - Kt).dot(psi)
        out.append((float(np.linalg.norm(r1) / np.linalg.norm(V.dot(psi))),
                    float(np.linalg.norm(r2) / np.linalg.norm((0.5 * Mt - Kt).dot(psi)))))
    return out


def body():
    chk = common.Check(PID, "model_checking")
    api = common.use_repo()
    import numpy as np
    from harness import probes, record_launch as rl, replay_galerkin as rgal

    chk.assume(
        "TLC computes the integer Galerkin numerators exactly (coordinates <= 8 in modulus, checked by CoordsSmall)",
        "the Calderon identity for affine u on a closed outward-oriented surface is entered as an axiom; TLC proves the premises "
        "(IsClosed, IsOriented, manifold, Euler) for every surface used; the residual is evaluated at orders (12,10) against the "
        "property's own 1e-6",
        "premise 'bounded aspect ratio' of the residual clause is read as circumdiameter^2 <= 3*J per element (right isosceles 2, equilateral 1.54); "
        "TET(3,2,1) exceeds it (3.33) and is used for the exact clauses only",
        "a polynomial probe cannot see a wrong-but-aligned remap; that is decided by the recorded plan (SingularityOnSharedEntity)",
        "kernel contract of the regular launch (skips exactly the adjacent pairs) is observed through the exact probe matrices",
    )
    quick = chk.tier == "quick"
    if quick:
        surfs = galerkin_obligations(chk, "c01", "BoxesQuick", "ExtraNone", [0, 1], ["OCT", "TET"], 4)
        probe_orders = [(6, 6)]
    else:
        surfs = galerkin_obligations(chk, "c01a", "BoxesQuick", "ExtraThorough", [0, 1], ["OCT", "TET", "CUBE12"], 4)
        surfs += [s for s in galerkin_obligations(chk, "c01b", "BoxesThorough", "ExtraNone", [0], [], 5) if s.n > 32]
        probe_orders = [(6, 6), (8, 7), (12, 10), (7, 9), (10, 8)]
    lap = api.operators.boundary.laplace
    par = api.GLOBAL_PARAMETERS
    rec = rl.LaunchRecorder()
    traces, trace_info = [], {}
    affine = [((1, 0, 0), 0.0), ((0, 1, 0), 0.7), ((1, -2, 3), -0.4)] + ([] if quick else [((0, 0, 1), 0.0), ((2, 1, -1), 3.0)])
    worst = [0.0, 0.0]
    for si, s in enumerate(surfs):
        label = "%s%s p%d n=%d" % (s.h["source"], s.h["name"] or str(s.h["cells"]), s.h["p"], s.n)

        def fail(key, detail, extra=None, s=s, label=label):
            chk.violation(key, "%s on %s" % (detail, label), {"surface": {k: s.h[k] for k in ("source", "name", "cells", "p", "xyz", "el")}, "extra": extra})

        try:
            g = s.grid(api)
            P1 = api.function_space(g, "P", 1)
            D0 = api.function_space(g, "DP", 0)
            D1 = api.function_space(g, "DP", 1)
            # (1) exact probe matrices through the public API
            for (oreg, osing) in probe_orders:
                par.quadrature.regular, par.quadrature.singular = oreg, osing
                with probes.installed():
                    for name, fac, kern, (kT, sT), (kS, sS) in [
                        ("single_layer", lap.single_layer, "r2", ("DP0", D0), ("DP0", D0)),
                        ("single_layer", lap.single_layer, "r2", ("P1", P1), ("DP1", D1)),
                        ("double_layer", lap.double_layer, "dl", ("DP0", D0), ("P1", P1)),
                        ("adjoint_double_layer", lap.adjoint_double_layer, "adl", ("P1", P1), ("DP0", D0)),
                        ("hypersingular", lap.hypersingular, "hyp_r2", ("P1", P1), ("P1", P1)),
                    ]:
                        A = fac(sS, sT, sT).weak_form().to_dense()
                        E = rgal.expected(s.local(kern), s.el, kT, kS)
                        err, msg = rgal.compare(A, rgal.entity_map(sT, kT, s.el), rgal.entity_map(sS, kS, s.el), E, 1e-10)
                        chk.count("%s/%s/%s/%s/%s" % (s.id, name, kT, kS, (oreg, osing)), s.n >= 8)
                        chk.cov["obligations_replayed"] += 1
                        if msg is not None or err > 1e-10:
                            fail("probe:%s:%s" % (name, kern), "probe kernel %s through laplace.%s (%s x %s, orders %s): %s" % (
                                kern, name, kT, kS, (oreg, osing), msg or "relative deviation %.3g from the exact matrix" % err))
            par.quadrature.regular, par.quadrature.singular = 4, 4
            # (2) plans of the real assemblies, recorded
            rec.install()
            try:
                par.quadrature.regular, par.quadrature.singular = (12, 10) if si % 4 == 0 else (6, 6)
                order = par.quadrature.singular
                for name, op, tsp, ssp in [
                    ("single_layer", lap.single_layer(D0, D0, D0), D0, D0),
                    ("double_layer", lap.double_layer(P1, D0, D0), D0, P1),
                    ("adjoint_double_layer", lap.adjoint_double_layer(D0, P1, P1), P1, D0),
                    ("hypersingular", lap.hypersingular(P1, P1, P1), P1, P1),
                ]:
                    rec.take()
                    op.weak_form()
                    tid = len(traces) + 1
                    traces.append(rl.make_trace(tid, g, tsp, ssp, order, rec.take()))
                    trace_info[tid] = (label, name)
            finally:
                rec.uninstall()
                par.quadrature.regular, par.quadrature.singular = 4, 4
            # (3) the identity itself at the top of the stated range
            copies = [(g, P1, D0, "")]
            if si % 5 == 0:
                g2 = s.grid(api, shift=(3.0, -2.0, 1.5), scale=0.5)
                copies.append((g2, api.function_space(g2, "P", 1), api.function_space(g2, "DP", 0), " scaled 0.5 and shifted"))
            for gg, p1, d0, what in copies:
                if not (s.h["closed"] and s.h["oriented"]):
                    continue
                # premise "bounded aspect ratio": circum-diameter^2 <= 3 J for every element (right isosceles: 2)
                if float((gg.diameters ** 2 / gg.integration_elements).max()) > 3.0:
                    chk.part("residual_not_judged", poor_aspect_ratio=1)
                    continue
                res = residuals(api, gg, p1, d0, (12, 10), affine)
                for (a, b), (e1, e2) in zip(affine, res):
                    worst[0], worst[1] = max(worst[0], e1), max(worst[1], e2)
                    chk.count("%s/resid/%s%s" % (s.id, a, what), True)
                    if not (e1 <= 1e-6):   # NaN counts as a deviation
                        fail("residual:first", "(1/2 M + K) g = V psi violated%s: relative residual %.3g at orders (12,10) for u = %s.x + %s" % (what, e1, a, b))
                    if not (e2 <= 1e-6):   # NaN counts as a deviation
                        fail("residual:second", "W g = (1/2 M' - K') psi violated%s: relative residual %.3g at orders (12,10) for u = %s.x + %s" % (what, e2, a, b))
            if si < 3:
                chk.sample({"surface": label, "cells": s.h["cells"], "elements": s.n, "euler": s.h["euler"]})
        except Exception as exc:
            fail("exception", "%s: %s" % (type(exc).__name__, exc))
    # (2b) validate all recorded plans with TLC
    if traces:
        res, verdicts = rl.validate(traces, timeout=2400)
        chk.add_tlc("AssemblyTrace (%d traces)" % len(traces), res)
        for t in traces:
            v = verdicts.get(t["id"])
            if v is None:
                raise common.MachineryError("no verdict for trace %d" % t["id"])
            chk.cov["traces_validated_against_impl"] += 1
            if v["verdict"] != "accept":
                label, name = trace_info[t["id"]]
                chk.violation("plan:%s:%s" % (name, v["verdict"]), "assembly plan of laplace.%s on %s rejected by AssemblyTrace: clause %s at event %d of %d" % (
                    name, label, v["verdict"], v["at"], v["events"]), {"trace": {k: t[k] for k in ("el", "supT", "supS", "ident", "order")}, "event": t["events"][v["at"] - 1] if v["at"] <= len(t["events"]) else None})
    chk.cov["rule"] = ("surfaces = polycubes of the boxes (both diagonal patterns) + closed base meshes; per surface 5 probe matrices per order pair, "
                       "4 recorded plans, residual of both identities for each affine function; non-trivial = surface with >= 8 elements")
    chk.cov["worst_residual_at_12_10"] = {"first": worst[0], "second": worst[1], "threshold": 1e-6}
    chk.cov["surfaces"] = len(surfs)
    return chk.finish()


if __name__ == "__main__":
    common.main(body)

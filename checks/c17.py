"""C17 FMM-mode operators equal dense-mode ones given an exact far-field evaluator.

Spec: FmmGlue.tla (index maps of the point-source glue, cache keys, backend protocol; the as-written indexing and cache keys
are negative configurations) and FmmTrace.tla (protocol of backend calls).  The sandbox has no exafmm: harness/fake_exafmm.py
implements the backend contract of the specification by direct summation, i.e. it IS the exact far-field evaluator of the
property.  Binding: every boundary and potential operator family is built with assembler='fmm' and compared with its dense
counterpart (whole grids, segments, non-prefix supports, different grids, real and complex vectors); the calls the library
makes into the backend are validated against the protocol; a history that changes the global quadrature order between two
FMM operators checks the cache keys; the shipped reference vectors are reproduced.
"""

import os
import shutil
import sys
import tempfile

sys.path.insert(0, os.path.dirname(os.path.dirname(os.path.abspath(__file__))))
from harness import common  # noqa: E402

PID = "C17"


def body():
    chk = common.Check(PID, "model_checking")
    from harness import fake_exafmm

    fake_exafmm.install()
    api = common.use_repo()
    import json
    import numpy as np

    chk.assume(
        "harness/fake_exafmm.py implements the backend contract written in FmmGlue.tla (potential and gradient by direct summation, coincident "
        "points skipped): the claims are about the glue, as the property says",
        "barycentric and dual spaces: dense assembly rejects spaces with dof transformations, so their dense counterpart is D' A D with A the dense operator on the element-wise spaces of the barycentric grid",
    )
    quick = chk.tier == "quick"
    for cfg, expect_ok, note in (("FmmGlue.cfg", True, "requirement"), ("FmmGlue_asis_index.cfg", False, "positions from element ids: must violate IndexMapsSound"),
                                 ("FmmGlue_asis_cache.cfg", False, "keys without order/depth: must violate CacheSound")):
        r = common.run_tlc("FmmGlue", cfg, timeout=900)
        chk.add_tlc("FmmGlue " + cfg, r, note=note)
        if expect_ok and not r.ok:
            chk.violation("spec:" + str(r.violated), "TLC: FmmGlue violates %s" % r.violated, {})
        if not expect_ok and r.ok:
            raise common.MachineryError("negative configuration %s was not rejected" % cfg)
    cwd = os.getcwd()
    d = tempfile.mkdtemp(prefix="c17_")
    os.chdir(d)   # ExafmmInterface creates ./.exafmm
    try:
        V = np.array([[0, 0, 0], [1, 0, 0], [0, 2, 0], [1, 2, 0], [0, 0, 3], [1, 0, 3], [0, 2, 3], [1, 2, 3]], dtype=float).T
        E = (np.array([[1, 4, 2], [1, 3, 4], [5, 6, 7], [6, 8, 7], [1, 2, 5], [2, 6, 5], [3, 8, 4], [3, 7, 8], [1, 7, 3], [1, 5, 7], [2, 4, 6], [4, 8, 6]]) - 1).T
        gA = api.Grid(V, E, np.array([0, 3, 7, 0, 3, 7, 0, 3, 7, 0, 3, 7], dtype="uint32")).refine()
        Vo = np.array([[1, 0, 0], [-1, 0, 0], [0, 2, 0], [0, -2, 0], [0, 0, 3], [0, 0, -3]], dtype=float).T
        Eo = np.array([[0, 2, 4], [0, 5, 2], [0, 4, 3], [0, 3, 5], [1, 4, 2], [1, 2, 5], [1, 3, 4], [1, 5, 3]]).T
        gB = api.Grid(Vo + np.array([[6.0], [1.0], [0.0]]), Eo, np.array([0, 3, 0, 3, 0, 3, 0, 3], dtype="uint32"))
        b, p = api.operators.boundary, api.operators.potential
        k, w = 0.9 + 0.2j, 0.7
        rng = np.random.RandomState(chk.seed)
        pts = np.array([[3.0, 0.2, 0.1], [0.1, -4.0, 0.3], [0.5, 0.4, 7.0], [4.0, 4.0, 4.0]]).T

        def spaces(g, variant):
            kw = {"all": {}, "seg": {"segments": [3]}, "sup": {"support_elements": np.arange(g.number_of_elements // 2, g.number_of_elements, dtype="uint32")}}[variant]
            ibd = {} if variant == "all" else {"include_boundary_dofs": True}
            return {"P1": api.function_space(g, "P", 1, **kw, **ibd), "DP0": api.function_space(g, "DP", 0, **kw),
                    "RWG": api.function_space(g, "RWG", 0, **kw, **ibd), "SNC": api.function_space(g, "SNC", 0, **kw, **ibd)}

        fams = [
            ("laplace.single_layer", lambda d, t, a: b.laplace.single_layer(d, t, t, assembler=a), "P1", "P1"),
            ("laplace.double_layer", lambda d, t, a: b.laplace.double_layer(d, t, t, assembler=a), "P1", "DP0"),
            ("laplace.adjoint_double_layer", lambda d, t, a: b.laplace.adjoint_double_layer(d, t, t, assembler=a), "DP0", "P1"),
            ("laplace.hypersingular", lambda d, t, a: b.laplace.hypersingular(d, t, t, assembler=a), "P1", "P1"),
            ("helmholtz.single_layer", lambda d, t, a: b.helmholtz.single_layer(d, t, t, k, assembler=a), "DP0", "P1"),
            ("helmholtz.double_layer", lambda d, t, a: b.helmholtz.double_layer(d, t, t, k, assembler=a), "P1", "P1"),
            ("helmholtz.adjoint_double_layer", lambda d, t, a: b.helmholtz.adjoint_double_layer(d, t, t, k, assembler=a), "P1", "DP0"),
            ("helmholtz.hypersingular", lambda d, t, a: b.helmholtz.hypersingular(d, t, t, k, assembler=a), "P1", "P1"),
            ("modified_helmholtz.single_layer", lambda d, t, a: b.modified_helmholtz.single_layer(d, t, t, w, assembler=a), "P1", "DP0"),
            ("modified_helmholtz.double_layer", lambda d, t, a: b.modified_helmholtz.double_layer(d, t, t, w, assembler=a), "DP0", "DP0"),
            ("modified_helmholtz.hypersingular", lambda d, t, a: b.modified_helmholtz.hypersingular(d, t, t, w, assembler=a), "P1", "P1"),
            ("maxwell.electric_field", lambda d, t, a: b.maxwell.electric_field(d, d, t, k, assembler=a), "RWG", "SNC"),
            ("maxwell.magnetic_field", lambda d, t, a: b.maxwell.magnetic_field(d, d, t, k, assembler=a), "RWG", "SNC"),
        ]
        pots = [
            ("potential.laplace.single_layer", lambda s, a: p.laplace.single_layer(s, pts, assembler=a), "P1"),
            ("potential.laplace.double_layer", lambda s, a: p.laplace.double_layer(s, pts, assembler=a), "P1"),
            ("potential.helmholtz.single_layer", lambda s, a: p.helmholtz.single_layer(s, pts, k, assembler=a), "DP0"),
            ("potential.helmholtz.double_layer", lambda s, a: p.helmholtz.double_layer(s, pts, k, assembler=a), "P1"),
            ("potential.modified_helmholtz.single_layer", lambda s, a: p.modified_helmholtz.single_layer(s, pts, w, assembler=a), "P1"),
            ("potential.modified_helmholtz.double_layer", lambda s, a: p.modified_helmholtz.double_layer(s, pts, w, assembler=a), "DP0"),
            ("potential.maxwell.electric_field", lambda s, a: p.maxwell.electric_field(s, pts, k, assembler=a), "RWG"),
            ("potential.maxwell.magnetic_field", lambda s, a: p.maxwell.magnetic_field(s, pts, k, assembler=a), "RWG"),
        ]
        configs = [("same grid, whole", gA, gA, "all", "all"), ("same grid, segment", gA, gA, "seg", "seg"), ("same grid, non-prefix support", gA, gA, "sup", "seg"),
                   ("different grids", gA, gB, "all", "all"), ("different grids, segments", gA, gB, "sup", "seg")]
        runs = [(4, c) for c in (configs if not quick else configs[:1] + configs[2:3] + configs[4:])]
        if not quick:   # quadrature orders set globally (without clearing the caches in between: the keys must tell the orders apart)
            runs += [(2, configs[2]), (6, configs[4]), (3, configs[1])]
        for gorder, (cname, gd, gt, vd, vt) in runs:
            api.GLOBAL_PARAMETERS.quadrature.regular = gorder
            if gorder == 4:
                api.clear_fmm_cache()
            else:
                cname = cname + ", global regular order %d" % gorder
            sd, st = spaces(gd, vd), spaces(gt, vt)
            for name, fac, kd, kt in fams if not quick or cname != "different grids, segments" else fams[::2]:
                label = "%s (%s -> %s), %s" % (name, kd, kt, cname)
                chk.count(label, True)
                chk.cov["obligations_replayed"] += 1
                try:
                    A = fac(sd[kd], st[kt], "fmm").weak_form()
                    D = fac(sd[kd], st[kt], "dense").weak_form()
                    for cplx in (False, True):
                        x = rng.rand(sd[kd].global_dof_count) + (1j * rng.rand(sd[kd].global_dof_count) if cplx else 0)
                        a, dd = A @ x, D @ x
                        e_ = np.abs(a - dd).max() / max(1e-12, np.abs(dd).max())
                        if not (e_ <= 1e-10):   # NaN counts as a deviation
                            chk.violation("fmm_vs_dense:%s:%s" % (name, cname.replace(" ", "_")), "%s: fmm and dense mat-vec differ by %.3g (%s vector)" % (label, e_, "complex" if cplx else "real"), {"case": label})
                            break
                except Exception as exc:
                    chk.violation("fmm_vs_dense:%s:exception" % name, "%s: %s: %s" % (label, type(exc).__name__, str(exc)[:160]), {"case": label})
            if gd is gt:
                for name, fac, ks in pots:
                    label = "%s (%s), %s" % (name, ks, cname)
                    chk.count(label, True)
                    try:
                        f = api.GridFunction(sd[ks], coefficients=rng.rand(sd[ks].global_dof_count) + 1j * rng.rand(sd[ks].global_dof_count))
                        a, dd = fac(sd[ks], "fmm").evaluate(f), fac(sd[ks], "dense").evaluate(f)
                        e_ = np.abs(a - dd).max() / max(1e-12, np.abs(dd).max())
                        if not (e_ <= 1e-10):   # NaN counts as a deviation
                            chk.violation("fmm_vs_dense:%s:%s" % (name, cname.replace(" ", "_")), "%s: fmm and dense potentials differ by %.3g" % (label, e_), {"case": label})
                    except Exception as exc:
                        chk.violation("fmm_vs_dense:%s:exception" % name, "%s: %s: %s" % (label, type(exc).__name__, str(exc)[:160]), {"case": label})
        api.GLOBAL_PARAMETERS.quadrature.regular = 4
        # ---- barycentric and dual spaces: the dense assembler rejects spaces with dof transformations, so the dense counterpart is
        # D_test' A_plain D_trial with A_plain the dense operator on the element-wise spaces of the barycentric grid (as in C10)
        gC = api.Grid(V, E)
        bg = gC.barycentric_refinement
        plain = {}

        def plain_space(bs):
            key = (bs.shapeset.identifier, bs.identifier)
            if key not in plain:
                if bs.shapeset.identifier == "p0_discontinuous":
                    plain[key] = api.function_space(bg, "DP", 0)
                elif bs.shapeset.identifier == "p1_discontinuous":
                    plain[key] = api.function_space(bg, "DP", 1)
                else:
                    base = api.function_space(bg, "SNC" if bs.identifier == "snc0" else "RWG", 0, include_boundary_dofs=True)
                    plain[key] = base.localised_space
                    plain[key]._identifier = base.identifier   # the Maxwell factories test the identifier string; harness-only tweak
            return plain[key]

        def dfull(space):
            return space.map_to_full_grid.dot(space.dof_transformation.tocsr()).toarray()

        bsp = {"BC": api.function_space(gC, "BC", 0), "RBC": api.function_space(gC, "RBC", 0), "RWG": api.function_space(gC, "RWG", 0), "SNC": api.function_space(gC, "SNC", 0),
               "DUAL0": api.function_space(gC, "DUAL", 0), "DUAL1": api.function_space(gC, "DUAL", 1), "P1": api.function_space(gC, "P", 1), "DP0": api.function_space(gC, "DP", 0)}
        bcases = [("maxwell.electric_field", lambda d, t, a: b.maxwell.electric_field(d, d, t, k, assembler=a), "BC", "RBC"),
                  ("maxwell.electric_field", lambda d, t, a: b.maxwell.electric_field(d, d, t, k, assembler=a), "RWG", "RBC"),
                  ("maxwell.magnetic_field", lambda d, t, a: b.maxwell.magnetic_field(d, d, t, k, assembler=a), "BC", "SNC"),
                  ("laplace.single_layer", lambda d, t, a: b.laplace.single_layer(d, d, t, assembler=a), "DUAL0", "DUAL0"),
                  ("laplace.single_layer", lambda d, t, a: b.laplace.single_layer(d, d, t, assembler=a), "P1", "DUAL0"),
                  ("helmholtz.double_layer", lambda d, t, a: b.helmholtz.double_layer(d, d, t, k, assembler=a), "DUAL1", "DP0"),
                  ("laplace.hypersingular", lambda d, t, a: b.laplace.hypersingular(d, d, t, assembler=a), "DUAL1", "DUAL1"),
                  ("modified_helmholtz.adjoint_double_layer", lambda d, t, a: b.modified_helmholtz.adjoint_double_layer(d, d, t, w, assembler=a), "DP0", "DUAL1")]
        api.clear_fmm_cache()
        for name, fac, kd, kt in bcases[::2] + bcases[1:2] if quick else bcases:
            label = "%s (%s -> %s), barycentric" % (name, kd, kt)
            chk.count(label, True)
            chk.cov["obligations_replayed"] += 1
            try:
                dom, tst = bsp[kd], bsp[kt]
                x = rng.rand(dom.global_dof_count) + 1j * rng.rand(dom.global_dof_count)
                a = fac(dom, tst, "fmm").weak_form() @ x
                bd, bt = (dom if dom.is_barycentric else dom.barycentric_representation()), (tst if tst.is_barycentric else tst.barycentric_representation())
                A = np.asarray(fac(plain_space(bd), plain_space(bt), "dense").weak_form().to_dense())
                dd = dfull(bt).T.dot(A).dot(dfull(bd)).dot(x)
                e_ = np.abs(a - dd).max() / max(1e-12, np.abs(dd).max())
                if not (e_ <= 1e-10):   # NaN counts as a deviation
                    chk.violation("fmm_vs_dense:%s:barycentric" % name, "%s: fmm mat-vec differs from D' A_dense D on the barycentric grid by %.3g" % (label, e_), {"case": label})
            except Exception as exc:
                chk.violation("fmm_vs_dense:%s:barycentric:exception" % name, "%s: %s: %s" % (label, type(exc).__name__, str(exc)[:160]), {"case": label})
        for name, fac, ks in (("potential.maxwell.electric_field", lambda s, a: p.maxwell.electric_field(s, pts, k, assembler=a), "BC"), ("potential.laplace.single_layer", lambda s, a: p.laplace.single_layer(s, pts, assembler=a), "DUAL0"),
                              ("potential.helmholtz.double_layer", lambda s, a: p.helmholtz.double_layer(s, pts, k, assembler=a), "DUAL1")):
            label = "%s (%s), barycentric" % (name, ks)
            chk.count(label, True)
            try:
                f = api.GridFunction(bsp[ks], coefficients=rng.rand(bsp[ks].global_dof_count) + 1j * rng.rand(bsp[ks].global_dof_count))
                a, dd = fac(bsp[ks], "fmm").evaluate(f), fac(bsp[ks], "dense").evaluate(f)
                e_ = np.abs(a - dd).max() / max(1e-12, np.abs(dd).max())
                if not (e_ <= 1e-10):   # NaN counts as a deviation
                    chk.violation("fmm_vs_dense:%s:barycentric" % name, "%s: fmm and dense potentials differ by %.3g" % (label, e_), {"case": label})
            except Exception as exc:
                chk.violation("fmm_vs_dense:%s:barycentric:exception" % name, "%s: %s: %s" % (label, type(exc).__name__, str(exc)[:160]), {"case": label})
        # ---- the library's own replacement of the backend (fmm.dense_evaluation): same comparison, far field by helpers.dense_interaction_evaluator
        par = api.GLOBAL_PARAMETERS
        par.fmm.dense_evaluation = True
        try:
            api.clear_fmm_cache()
            sd, st = spaces(gA, "sup"), spaces(gA, "seg")
            for name, fac, kd, kt in fams[::3] if quick else fams:
                label = "%s (%s -> %s), dense_evaluation" % (name, kd, kt)
                chk.count(label, True)
                try:
                    x = rng.rand(sd[kd].global_dof_count) + 1j * rng.rand(sd[kd].global_dof_count)
                    a, dd = fac(sd[kd], st[kt], "fmm").weak_form() @ x, fac(sd[kd], st[kt], "dense").weak_form() @ x
                    e_ = np.abs(a - dd).max() / max(1e-12, np.abs(dd).max())
                    if not (e_ <= 1e-10):   # NaN counts as a deviation
                        chk.violation("dense_evaluation:%s" % name, "%s: fmm (library's direct far-field evaluator) and dense mat-vec differ by %.3g" % (label, e_), {"case": label})
                except Exception as exc:
                    chk.violation("dense_evaluation:%s:exception" % name, "%s: %s: %s" % (label, type(exc).__name__, str(exc)[:160]), {"case": label})
            for name, fac, ks in pots[::3] if quick else pots:
                label = "%s (%s), dense_evaluation" % (name, ks)
                chk.count(label, True)
                try:
                    f = api.GridFunction(sd[ks], coefficients=rng.rand(sd[ks].global_dof_count) + 1j * rng.rand(sd[ks].global_dof_count))
                    a, dd = fac(sd[ks], "fmm").evaluate(f), fac(sd[ks], "dense").evaluate(f)
                    e_ = np.abs(a - dd).max() / max(1e-12, np.abs(dd).max())
                    if not (e_ <= 1e-10):   # NaN counts as a deviation
                        chk.violation("dense_evaluation:%s" % name, "%s: fmm and dense potentials differ by %.3g" % (label, e_), {"case": label})
                except Exception as exc:
                    chk.violation("dense_evaluation:%s:exception" % name, "%s: %s: %s" % (label, type(exc).__name__, str(exc)[:160]), {"case": label})
        finally:
            par.fmm.dense_evaluation = False
        # ---- cache keys: change the global order between two FMM operators on the same grid
        sp = spaces(gA, "all")
        for hist in ("order", "order+clear"):
            api.clear_fmm_cache()
            par.quadrature.regular = 2
            x = rng.rand(sp["P1"].global_dof_count)
            b.laplace.single_layer(sp["P1"], sp["P1"], sp["P1"], assembler="fmm").weak_form() @ x
            p.laplace.single_layer(sp["P1"], pts, assembler="fmm").evaluate(api.GridFunction(sp["P1"], coefficients=x))
            par.quadrature.regular = 4
            if hist == "order+clear":
                api.clear_fmm_cache()
            try:
                a = b.laplace.single_layer(sp["P1"], sp["P1"], sp["P1"], assembler="fmm").weak_form() @ x
                dd = b.laplace.single_layer(sp["P1"], sp["P1"], sp["P1"], assembler="dense").weak_form() @ x
                pa = p.laplace.single_layer(sp["P1"], pts, assembler="fmm").evaluate(api.GridFunction(sp["P1"], coefficients=x))
                pd = p.laplace.single_layer(sp["P1"], pts, assembler="dense").evaluate(api.GridFunction(sp["P1"], coefficients=x))
                chk.count(("cache", hist), True)
                if not (np.abs(a - dd).max() <= 1e-10 * np.abs(dd).max()):   # NaN counts as a deviation
                    chk.violation("cache:boundary:%s" % hist, "after changing the global quadrature order from 2 to 4 a new FMM single layer differs from the dense one by %.3g (stale interface)" % (np.abs(a - dd).max() / np.abs(dd).max()), {"history": hist})
                if not (np.abs(pa - pd).max() <= 1e-10 * np.abs(pd).max()):   # NaN counts as a deviation
                    chk.violation("cache:potential:%s" % hist, "after changing the global quadrature order from 2 to 4 a new FMM potential differs from the dense one by %.3g (stale interface)" % (np.abs(pa - pd).max() / np.abs(pd).max()), {"history": hist})
            except Exception as exc:
                chk.violation("cache:exception", "%s after changing the global order: %s" % (type(exc).__name__, str(exc)[:160]), {"history": hist})
            finally:
                par.quadrature.regular = 4
        # explicit parameter objects (recorded finding if ignored)
        try:
            from bempp_cl.api.utils.parameters import DefaultParameters

            api.clear_fmm_cache()
            P = DefaultParameters()
            P.quadrature.regular = 2
            x = rng.rand(sp["P1"].global_dof_count)
            a = b.laplace.single_layer(sp["P1"], sp["P1"], sp["P1"], assembler="fmm", parameters=P).weak_form() @ x
            dd = b.laplace.single_layer(sp["P1"], sp["P1"], sp["P1"], assembler="dense", parameters=P).weak_form() @ x
            chk.count("explicit parameters", True)
            if not (np.abs(a - dd).max() <= 1e-10 * np.abs(dd).max()):   # NaN counts as a deviation
                chk.violation("explicit_parameters:boundary", "FMM single layer with an explicit parameter object (regular order 2, global 4) differs from the dense operator with the same object by %.3g" % (np.abs(a - dd).max() / np.abs(dd).max()), {})
            f = api.GridFunction(sp["P1"], coefficients=x)
            pa = p.helmholtz.double_layer(sp["P1"], pts, k, assembler="fmm", parameters=P).evaluate(f)
            pd = p.helmholtz.double_layer(sp["P1"], pts, k, assembler="dense", parameters=P).evaluate(f)
            chk.count("explicit parameters, potential", True)
            if not (np.abs(pa - pd).max() <= 1e-10 * np.abs(pd).max()):   # NaN counts as a deviation
                chk.violation("explicit_parameters:potential", "FMM double-layer potential with an explicit parameter object (regular order 2, global 4) differs from the dense one with the same object by %.3g" % (np.abs(pa - pd).max() / np.abs(pd).max()), {})
        except Exception as exc:
            chk.violation("explicit_parameters:boundary", "FMM operator with an explicit parameter object raises %s: %s" % (type(exc).__name__, str(exc)[:160]), {})
        api.clear_fmm_cache()
        # ---- protocol of backend calls
        calls = [{"tree": t, "call": c} for t, c in fake_exafmm.CALLS]
        tf = os.path.join(d, "calls.json")
        with open(tf, "w") as fh:
            json.dump({"calls": calls}, fh)
        r = common.run_tlc("FmmTrace", "FmmTrace.cfg", workers=1, timeout=1200, env={"TRACE_FILE": tf})
        chk.add_tlc("FmmTrace (%d backend calls)" % len(calls), r)
        chk.cov["traces_validated_against_impl"] += 1
        verdicts = [json.loads(body) for kind, body in r.printed if kind == "TRC"]
        if not verdicts:
            raise common.MachineryError("no verdict from FmmTrace")
        if verdicts[0]["verdict"] != "accept":
            chk.violation("protocol", "calls into the backend violate the protocol: %s" % verdicts[0]["verdict"], {"calls": calls[: verdicts[0]["at"] + 2][-12:]})
        chk.sample({"backend_calls": calls[:8]})
        # ---- shipped reference vectors (recorded with the real exafmm; stated tolerance 2e-3)
        try:
            data = os.path.join(common.REPO, "test", "data")
            g = api.import_grid(os.path.join(data, "fmm_grid.msh"))
            vec = np.load(os.path.join(data, "fmm_p1_vec.npy"))
            if not quick:
                s = api.function_space(g, "P", 1)
                for nm, fac in (("laplace_single", lambda: b.laplace.single_layer(s, s, s, assembler="fmm")), ("laplace_double", lambda: b.laplace.double_layer(s, s, s, assembler="fmm")),
                                ("laplace_hyper", lambda: b.laplace.hypersingular(s, s, s, assembler="fmm"))):
                    ref = np.load(os.path.join(data, "fmm_%s.npy" % nm))
                    got = fac().weak_form() @ vec
                    rel = np.linalg.norm(got - ref.ravel()) / np.linalg.norm(ref)
                    chk.count(("reference", nm), True)
                    chk.part("reference_vectors", **{nm: float(rel)})
                    if rel > 2e-3:
                        chk.violation("reference:%s" % nm, "shipped reference vector fmm_%s.npy is reproduced only to %.3g (stated tolerance 2e-3)" % (nm, rel), {})
        except Exception as exc:
            chk.part("reference_vectors", error="%s: %s" % (type(exc).__name__, str(exc)[:100]))
    finally:
        os.chdir(cwd)
        shutil.rmtree(d, ignore_errors=True)
    chk.cov["rule"] = "one obligation per (operator family, space pair, grid configuration) with real and complex vectors; potentials; cache histories; one recorded call trace"
    return chk.finish()


if __name__ == "__main__":
    common.main(body)

"""EXT-OCTREE (extension beyond the listed properties, DESIGN 10 / 12.7): bempp_cl.api.utils.Octree against spec/Octree.tla.

TLC checks the bit arithmetic of the Morton encoding as written (every 10-bit number), bijectivity, the hierarchy and
neighbour laws, and emits for every vertex set of the bounded universe the leaves, nodes per level, near fields and leaf
neighbours; each obligation is replayed into the real (jit-compiled) class through its public attributes.
Not a listed property: the result is written to /verif/evidence_ext/EXT-OCTREE.json, not to /verif/evidence.
Exit codes as for the property checks (0 held, 1 violation, 2 machinery).
"""

import json
import os
import sys
import time

sys.path.insert(0, os.path.dirname(os.path.dirname(os.path.abspath(__file__))))
from harness import common  # noqa: E402

CFG = """SPECIFICATION Spec
CONSTANTS
  Levels = {%s}
  Lattice = {%s}
  MaxVertices = %d
  EmitJson = TRUE
INVARIANT ArithmeticSound
INVARIANT MortonBijective
INVARIANT HierarchySound
INVARIANT TreeSound
INVARIANT Emit
CHECK_DEADLOCK FALSE
"""


def main():
    t0 = time.time()
    tier = common.tier()
    quick = tier == "quick"
    common.use_repo()
    import numpy as np
    from bempp_cl.api.utils import Octree
    from bempp_cl.api.utils import octree as om

    tmpcfg = os.path.join(common.SPEC, "_oct_%d.cfg" % os.getpid())
    with open(tmpcfg, "w") as f:
        f.write(CFG % (("1, 2", "0, 3, 4, 8", 2) if quick else ("1, 2, 3", "0, 1, 4, 7, 8", 2)))
    try:
        res = common.run_tlc("Octree", os.path.basename(tmpcfg), timeout=3000)
    finally:
        os.remove(tmpcfg)
    problems, notes = [], []
    if not res.ok:
        problems.append("TLC: Octree violates %s" % res.violated)
    lb, diam = np.array([-1.0, 0.0, 2.0]), np.array([4.0, 2.0, 8.0])
    n_ob = 0
    for ob in res.obligations:
        n_ob += 1
        L = ob["level"]
        P = np.array(ob["verts"], dtype=float).T          # 3 x N, in eighths of the box
        V = lb[:, None] + (P / 8.0) * diam[:, None]
        rng = np.random.RandomState(n_ob)
        perm = rng.permutation(V.shape[1])                 # the order of the vertices is free
        V = np.ascontiguousarray(V[:, perm])
        leafof = np.array(ob["leafof"])[perm]
        try:
            t = Octree(lb.copy(), lb + diam, L, V)
            bad = []
            if [int(t.leaf_containing_point(V[:, i])) for i in range(V.shape[1])] != leafof.tolist():
                bad.append("leaf_containing_point")
            if list(map(int, t.non_empty_leaf_nodes)) != ob["leaves"]:
                bad.append("non_empty_leaf_nodes %s != %s" % (list(t.non_empty_leaf_nodes), ob["leaves"]))
            ptr, si = list(map(int, t.leaf_nodes_ptr)), list(map(int, t.sorted_indices))
            if sorted(si) != list(range(V.shape[1])) or len(ptr) != len(ob["leaves"]) + 1 or ptr[0] != 0 or ptr[-1] != V.shape[1]:
                bad.append("sorted_indices / leaf_nodes_ptr are not a partition")
            else:
                for p, leaf in enumerate(ob["leaves"]):
                    if set(si[ptr[p]:ptr[p + 1]]) != set(np.flatnonzero(leafof == leaf).tolist()):
                        bad.append("vertices of leaf %d" % leaf)
            lp, ln = list(map(int, t.non_empty_nodes_ptr)), list(map(int, t.non_empty_nodes_by_level))
            if len(lp) != L + 2 or [ln[lp[j]:lp[j + 1]] for j in range(L + 1)] != ob["nodes"]:
                bad.append("non_empty_nodes_by_level %s / %s != %s" % (ln, lp, ob["nodes"]))
            npn, nf = list(map(int, t.near_field_nodes_ptr)), list(map(int, t.near_field_nodes))
            want = [[x for node in lev for x in node] for lev in ob["near"]]
            if len(npn) != L + 2 or [nf[npn[j]:npn[j + 1]] for j in range(L + 1)] != want:
                bad.append("near_field_nodes")
            for p, leaf in enumerate(ob["leaves"]):
                if sorted(map(int, t.neighbors(leaf, L))) != ob["neigh"][p]:
                    bad.append("neighbors(%d)" % leaf)
                i3 = om.de_morton(leaf)
                if int(om.morton(i3)) != leaf or int(t.parent(leaf)) != leaf // 8 or leaf not in list(map(int, t.children(leaf // 8))):
                    bad.append("morton / parent / children of %d" % leaf)
                lo, hi = t.node_bounds(leaf, L)
                size = diam / (1 << L)
                if np.abs(lo - (lb + np.array(i3) * size)).max() > 1e-14 or np.abs(hi - lo - size).max() > 1e-14:
                    bad.append("node_bounds(%d)" % leaf)
                pts = np.flatnonzero(leafof == leaf)
                if not all((V[:, i] >= lo - 1e-14).all() and (V[:, i] <= hi + 1e-14).all() for i in pts):
                    bad.append("vertices outside the bounds of their leaf %d" % leaf)
            if int(t.nodes_per_side(L)) != 1 << L or int(t.nodes_per_level(L)) != 8 ** L:
                bad.append("nodes_per_side / nodes_per_level")
            for lev in range(L + 1):
                if np.abs(np.asarray(t.node_diameter(lev)) - diam / (1 << lev)).max() > 1e-14:
                    nt = "node_diameter(level) ignores its argument and returns the leaf diameter for every level"
                    if nt not in notes:
                        notes.append(nt)
            for b_ in bad:
                problems.append("level %d vertices %s: %s" % (L, ob["verts"], b_))
        except Exception as exc:
            problems.append("level %d vertices %s: %s: %s" % (L, ob["verts"], type(exc).__name__, str(exc)[:200]))
        if len(problems) > 20:
            break
    out = {"id": "EXT-OCTREE", "tier": tier, "tlc": {"distinct_states": res.distinct, "generated": res.generated, "ok": res.ok, "wall_s": res.wall},
           "obligations_replayed": n_ob, "problems": problems[:20], "notes": notes, "wall_s": round(time.time() - t0, 1),
           "what": "Morton arithmetic as written for all 10-bit numbers, bijectivity and hierarchy laws by TLC; every vertex set of the universe replayed into bempp_cl.api.utils.Octree"}
    d = os.path.join(os.environ["VERIF_EVIDENCE_DIR"], "ext") if os.environ.get("VERIF_EVIDENCE_DIR") else os.path.join(common.VERIF, "evidence_ext")
    os.makedirs(d, exist_ok=True)
    with open(os.path.join(d, "EXT-OCTREE.json"), "w") as f:
        json.dump(out, f, indent=1)
    for nt in notes:
        print("NOTE (extension, not a listed property): " + nt)
    if n_ob == 0:
        raise common.MachineryError("no obligations from TLC")
    if problems:
        for p_ in problems[:5]:
            print("EXT-VIOLATION id=EXT-OCTREE " + p_)
        return 1
    print("OK id=EXT-OCTREE tier=%s states=%d obligations=%d wall=%.1fs" % (tier, res.distinct, n_ob, time.time() - t0))
    return 0


if __name__ == "__main__":
    common.main(main)

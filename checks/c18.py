"""C18 Results depend only on explicit arguments, not on process history.

Spec: History.tla (global / explicit parameter objects shared by reference, per-operator weak/strong caches, the
space's mass-matrix cache) with the requirements SameObject, ExplicitHonoured, NoInterference checked exhaustively
by TLC to depth 7; HistoryTrace.tla validates traces recorded from the real library.
Bindings: TLC-generated behaviours (simulation mode) and the shortest counterexamples of the negative-control
configurations are executed on the real library; each result is classified against a table computed in a fresh
interpreter, and the recorded trace is validated against the specification.
"""

import os
import sys

sys.path.insert(0, os.path.dirname(os.path.dirname(os.path.abspath(__file__))))
from harness import common  # noqa: E402

PID = "C18"

DIRECTED = [
    # shortest counterexample of History_unkeyed.cfg (mass-matrix cache interference)
    [("create", 1, ["hyp", "G"]), ("mass_matrix", 0, []), ("set_global", 0, ["reg", 1]), ("strong_form", 1, [])],
    [("set_global", 0, ["reg", 1]), ("mass_matrix", 0, []), ("set_global", 0, ["reg", 4]), ("create", 1, ["slp", "G"]), ("strong_form", 1, []), ("mass_matrix", 0, [])],
    [("create", 1, ["idt", "G"]), ("create", 2, ["idt", "G"]), ("set_global", 0, ["reg", 1]), ("strong_form", 1, []), ("set_global", 0, ["reg", 4]), ("strong_form", 2, []), ("strong_form", 1, [])],
    # explicit parameter objects
    [("mutate_params", 0, ["reg", 1]), ("create", 1, ["slp", "P"]), ("create", 2, ["slp", "G"]), ("weak_form", 1, []), ("weak_form", 2, []), ("weak_form", 1, [])],
    [("mutate_params", 0, ["sing", 3]), ("create", 1, ["hyp", "P"]), ("mutate_params", 0, ["sing", 4]), ("weak_form", 1, []), ("mutate_params", 0, ["sing", 3]), ("weak_form", 1, [])],
    [("mutate_params", 0, ["reg", 1]), ("create", 1, ["idt", "P"]), ("weak_form", 1, []), ("create", 2, ["pot", "P"]), ("mutate_params", 0, ["reg", 4]), ("evaluate", 2, [])],
    # strong form of operators with an explicit object: the mass matrix follows the object, not the global order (shortest
    # counterexample of History_explicitmass.cfg, the code before fix d373db3), also when the object is mutated before the first use
    [("set_global", 0, ["reg", 1]), ("create", 1, ["slp", "P"]), ("strong_form", 1, [])],
    [("create", 1, ["idt", "P"]), ("create", 2, ["idt", "G"]), ("mutate_params", 0, ["reg", 1]), ("strong_form", 1, []), ("strong_form", 2, []), ("mass_matrix", 0, [])],
    # a factory that hands the call on to another family (Helmholtz hypersingular with a purely imaginary wavenumber -> modified Helmholtz)
    [("mutate_params", 0, ["reg", 1]), ("create", 1, ["mhyp", "P"]), ("weak_form", 1, []), ("create", 2, ["mhyp", "G"]), ("weak_form", 2, []), ("strong_form", 1, [])],
    [("mutate_params", 0, ["sing", 3]), ("create", 1, ["mhyp", "P"]), ("set_global", 0, ["sing", 3]), ("mutate_params", 0, ["sing", 4]), ("weak_form", 1, [])],
    # only the singular order changes between two operators on the same spaces (regular unchanged)
    [("create", 1, ["slp", "G"]), ("weak_form", 1, []), ("set_global", 0, ["sing", 3]), ("create", 2, ["slp", "G"]), ("weak_form", 2, []), ("weak_form", 1, [])],
    [("mutate_params", 0, ["sing", 3]), ("create", 1, ["hyp", "P"]), ("weak_form", 1, []), ("create", 2, ["hyp", "G"]), ("weak_form", 2, []), ("strong_form", 1, [])],
    # FMM operators: the interface cache is keyed by the order; clear_fmm_cache in between (counterexample of History_fmmunkeyed.cfg first)
    [("create", 1, ["fmm", "G"]), ("weak_form", 1, []), ("set_global", 0, ["reg", 1]), ("create", 2, ["fmm", "G"]), ("weak_form", 2, []), ("weak_form", 1, [])],
    [("create", 1, ["fmm", "P"]), ("mutate_params", 0, ["reg", 1]), ("weak_form", 1, []), ("clear_fmm", 0, []), ("create", 2, ["fmm", "G"]), ("weak_form", 2, [])],
    # global changed between construction and first assembly, and after it
    [("create", 1, ["slp", "G"]), ("set_global", 0, ["reg", 1]), ("weak_form", 1, []), ("set_global", 0, ["reg", 4]), ("weak_form", 1, []), ("strong_form", 1, [])],
    [("create", 1, ["pot", "G"]), ("set_global", 0, ["reg", 1]), ("evaluate", 1, []), ("create", 2, ["pot", "G"]), ("evaluate", 2, []), ("evaluate", 1, [])],
]


def body():
    chk = common.Check(PID, "model_checking")
    from harness import fake_exafmm

    fake_exafmm.install()      # the exact stand-in backend of C17: operators created with assembler='fmm' take part in the histories
    api = common.use_repo()
    import tempfile

    _cwd, _tmpd = os.getcwd(), tempfile.mkdtemp(prefix="c18_")
    os.chdir(_tmpd)            # the FMM interface creates ./.exafmm
    import numpy as np
    from harness import replay_history as rh

    chk.assume(
        "an assembly is abstracted by its effective inputs (quadrature orders read); results are classified against a table computed in one "
        "fresh interpreter with new objects for every entry and the global parameters set before anything is created",
        "judged reading of 'parameter object given at construction' for parameters=None: the global object is shared by reference and its "
        "values at the first assembly count (DESIGN 3.9/8-11); interference between objects, unstable caches and ignored explicit objects are "
        "violations under either reading",
        "precision clause (single vs double) is evaluated numerically only (the Numba path always assembles in double)",
    )
    quick = chk.tier == "quick"
    # (1) exhaustive model checking of the requirement on the model of the code
    depth = 7 if quick else 8
    tmp = {}
    for name in ("History.cfg", "History_sim.cfg"):
        tmp[name] = "_c18_%d_%s" % (os.getpid(), name)
        with open(os.path.join(common.SPEC, name)) as fi, open(os.path.join(common.SPEC, tmp[name]), "w") as fo:
            fo.write(fi.read().replace("MaxDepth = 7", "MaxDepth = %d" % (depth if name == "History.cfg" else (7 if quick else 10))))
    try:
        res = common.run_tlc("History", tmp["History.cfg"], timeout=3400)
    finally:
        os.remove(os.path.join(common.SPEC, tmp["History.cfg"]))
    chk.add_tlc("History exhaustive (depth %d, 2 slots, 4 kinds)" % depth, res)
    if not res.ok:
        chk.violation("spec:" + str(res.violated), "TLC: the cache model violates %s; shortest history:\n%s" % (res.violated, "\n".join(t.split("last = ")[-1][:120] for t in res.trace)), {})
    # (2) non-vacuity: the un-keyed mass cache (the code before the fix) must violate NoInterference
    neg = common.run_tlc("History", "History_unkeyed.cfg", timeout=3000)
    chk.add_tlc("History negative control (un-keyed mass cache)", neg, note="must violate NoInterference")
    if neg.ok or neg.violated != "NoInterference":
        raise common.MachineryError("negative control did not produce the NoInterference counterexample (vacuous requirement?)")
    # (3) behaviours from TLC + directed histories, executed on the real library
    try:
        sim = common.run_tlc("History", tmp["History_sim.cfg"], simulate="num=%d" % (12 if quick else 300), depth=9 if quick else 12, workers=1, extra=["-seed", str(1 + chk.seed)], timeout=1800)
    finally:
        os.remove(os.path.join(common.SPEC, tmp["History_sim.cfg"]))
    hists = []
    seen = set()
    for o in sim.obligations:
        h = [(e["call"], e["slot"], e["arg"]) for e in o["hist"]]
        key = repr(h)
        interesting = sum(1 for c in h if c[0] in ("weak_form", "strong_form", "mass_matrix", "evaluate"))
        if key not in seen and interesting >= 2:
            seen.add(key)
            hists.append(h)
    hists = hists[: (40 if quick else 400)]
    chk.cov["tlc_runs"].append({"name": "History simulation", "cmd": sim.cmd, "behaviours": len(sim.obligations), "kept": len(hists), "wall_s": round(sim.wall, 1)})
    try:
        ref = rh.reference_table(common.REPO)
    except Exception as exc:
        raise common.MachineryError(str(exc))
    traces = []
    for i, h in enumerate(DIRECTED + hists):
        hist = [{"call": c, "slot": s, "arg": a} for c, s, a in h]
        try:
            ev, notes = rh.record(api, hist, ref)
        except Exception as exc:
            chk.violation("history:exception", "%s while executing history %s: %s" % (type(exc).__name__, h, exc), {"history": hist})
            continue
        for n, note in notes:
            chk.violation("history:same_object", "%s at step %d of %s" % (note, n + 1, h), {"history": hist})
        traces.append({"id": i + 1, "events": ev, "directed": i < len(DIRECTED)})
        chk.count(repr(h), True)
    res2, verdicts = rh.validate(traces)
    chk.add_tlc("HistoryTrace (%d recorded traces)" % len(traces), res2)
    for t in traces:
        v = verdicts.get(t["id"])
        if v is None:
            raise common.MachineryError("no verdict for trace %d" % t["id"])
        chk.cov["traces_validated_against_impl"] += 1
        if v["verdict"] != "accept":
            calls = [(e["call"], e["slot"], e["arg"]) for e in t["events"]]
            what = v["verdict"]
            call = what.split("(")[1].split(")")[0] if "(" in what else "?"
            chk.violation("history:%s" % call, "trace rejected by HistoryTrace: %s; history %s" % (what, calls), {"trace": t["events"]})
    chk.sample({"directed_history": DIRECTED[0], "recorded": traces[0]["events"] if traces else None})
    fk = common.run_tlc("History", "History_fmmunkeyed.cfg", timeout=3000)
    chk.add_tlc("History negative control (FMM interface cache without the quadrature order)", fk, note="must violate ExplicitHonoured")
    if fk.ok or "ExplicitHonoured" not in str(fk.violated):
        raise common.MachineryError("negative control History_fmmunkeyed.cfg did not violate ExplicitHonoured (got %s)" % fk.violated)
    # (4) second negative control: the code before fix d373db3 (mass matrix of strong_form always from the global object) must violate NoInterference
    em = common.run_tlc("History", "History_explicitmass.cfg", timeout=3000)
    chk.add_tlc("History negative control (explicit object ignored by the mass matrix)", em, note="must violate NoInterference")
    if em.ok or "NoInterference" not in str(em.violated):
        raise common.MachineryError("negative control History_explicitmass.cfg did not violate NoInterference (got %s)" % em.violated)
    # (5) single vs double precision
    try:
        g = api.Grid(rh.V, rh.E)
        s = api.function_space(g, "DP", 0)
        a = api.operators.boundary.laplace.single_layer(s, s, s, precision="double").weak_form().to_dense()
        b = api.operators.boundary.laplace.single_layer(s, s, s, precision="single").weak_form().to_dense()
        chk.count("precision", True)
        if not (np.abs(a - b).max() <= 1e-5 * np.abs(a).max()):   # NaN counts as a deviation
            chk.violation("precision", "single-precision request differs from double by %.3g (relative)" % (np.abs(a - b).max() / np.abs(a).max()), {})
    except Exception as exc:
        chk.violation("precision", "%s: %s" % (type(exc).__name__, exc), {})
    os.chdir(_cwd)
    import shutil

    shutil.rmtree(_tmpd, ignore_errors=True)
    chk.cov["rule"] = "one recorded trace per history (directed + TLC simulation behaviours with >= 2 result-returning calls); every trace validated by TLC"
    return chk.finish()


if __name__ == "__main__":
    common.main(body)

"""C04 Operators on a subspace are congruence transforms of those on a larger space.

Spec: Spaces.tla / SpaceModel.tla define, numbering-free, which (element, local index) slots every DOF of a space
is attached to, i.e. the coefficient map T_S to the element-wise basis; Assembly.tla / AssemblyTrace.tla state that
the plan integrates exactly supp(test) x supp(trial).  Binding: every space obligation is replayed, its T_S is
validated against the requirement and  A_S = T_test^T A_disc T_trial  is checked to rounding with the REAL kernels
for every operator family; plans with independent test / trial supports are recorded and validated by TLC; nested
refinement is checked with exact probe kernels (and with real kernels as the orders are raised, thorough tier).
"""

import os
import sys

sys.path.insert(0, os.path.dirname(os.path.dirname(os.path.abspath(__file__))))
from harness import common  # noqa: E402

PID = "C04"
TOL = 1e-10


def elementwise(api, grid, kind):
    """Full-grid element-wise space with the local basis of `kind`."""
    if kind == "DP0":
        return api.function_space(grid, "DP", 0)
    if kind in ("DP1", "P1"):
        return api.function_space(grid, "DP", 1)
    base = api.function_space(grid, "RWG" if kind == "RWG" else "SNC", 0, include_boundary_dofs=True)
    loc = base.localised_space
    loc._identifier = base.identifier  # the Maxwell factories test the identifier string; harness-only tweak
    return loc


def families(api, quick=False):
    """(name, factory(domain, range, dual) -> operator, trial kind class, test kind class)."""
    b = api.operators.boundary
    k = 0.7 + 0.3j
    out = [
        ("laplace.single_layer", lambda d, t: b.laplace.single_layer(d, t, t), "scalar", "scalar"),
        ("laplace.double_layer", lambda d, t: b.laplace.double_layer(d, t, t), "scalar", "scalar"),
        ("laplace.adjoint_double_layer", lambda d, t: b.laplace.adjoint_double_layer(d, t, t), "scalar", "scalar"),
        ("laplace.hypersingular", lambda d, t: b.laplace.hypersingular(d, t, t), "p1", "p1"),
        ("helmholtz.single_layer", lambda d, t: b.helmholtz.single_layer(d, t, t, k), "scalar", "scalar"),
        ("helmholtz.double_layer", lambda d, t: b.helmholtz.double_layer(d, t, t, 1.1), "scalar", "scalar"),
        ("helmholtz.hypersingular", lambda d, t: b.helmholtz.hypersingular(d, t, t, k), "p1", "p1"),
        ("modified_helmholtz.adjoint_double_layer", lambda d, t: b.modified_helmholtz.adjoint_double_layer(d, t, t, 0.6), "scalar", "scalar"),
        ("modified_helmholtz.hypersingular", lambda d, t: b.modified_helmholtz.hypersingular(d, t, t, 0.6), "p1", "p1"),
        ("maxwell.electric_field", lambda d, t: b.maxwell.electric_field(d, d, t, k), "rwg", "snc"),
        ("maxwell.magnetic_field", lambda d, t: b.maxwell.magnetic_field(d, d, t, 0.9), "rwg", "snc"),
        ("sparse.identity", lambda d, t: b.sparse.identity(d, d, t), "same", "same"),
        ("sparse.laplace_beltrami", lambda d, t: b.sparse.laplace_beltrami(d, d, t), "p1", "p1"),
    ]
    if quick:
        # one family per assembly function of the library (default scalar, three hypersingular, two Maxwell, sparse) + a kernel using normals
        keep = ("laplace.single_layer", "laplace.double_layer", "laplace.hypersingular", "helmholtz.hypersingular", "modified_helmholtz.hypersingular",
                "maxwell.electric_field", "maxwell.magnetic_field", "sparse.identity", "sparse.laplace_beltrami")
        out = [f for f in out if f[0] in keep]
    return out


def kinds_for(cls):
    return {"scalar": ["DP0", "DP1", "P1"], "p1": ["P1", "DP1"], "rwg": ["RWG"], "snc": ["SNC"], "same": ["DP0", "P1", "RWG"]}[cls]


def body():
    chk = common.Check(PID, "model_checking")
    api = common.use_repo()
    import numpy as np
    from harness import replay_grid as rg, replay_space as rs, record_launch as rl, probes, replay_galerkin as rgal
    import c09
    import c01

    chk.assume(
        "A_disc is assembled on the full-grid element-wise space with the same local basis (DP0, DP1, or the localised RWG/SNC space of the "
        "whole grid with its identifier set to the one the Maxwell factories accept)",
        "T_S is space.map_to_full_grid, validated here against the slots required by Spaces.tla for the same obligation",
        "nested refinement: exact with polynomial probe kernels (quick); with the real kernels the defect must decrease as the orders are raised (thorough)",
    )
    quick = chk.tier == "quick"
    par = api.GLOBAL_PARAMETERS
    par.quadrature.regular, par.quadrature.singular = 4, 4
    kw = dict(bases=["OCT", "STRIP8"] if quick else ["OCT", "STRIP8", "TET", "DISJ"], drop=0 if quick else 1, kinds=["DP0", "DP1", "P1", "RWG"], rot=1)
    res = c09.tlc_spaces(chk, kw, "c04")
    if not res.ok:
        chk.violation("spec:" + str(res.violated), "TLC: SpaceModel violates %s" % res.violated, {"trace": res.trace[-2:]})
        return chk.finish()
    chk.require_coverage(res, ["StartP1", "RWGFinish", "ColourDone"])
    # group obligations per grid and kind
    by_grid = {}
    for ob in res.obligations:
        by_grid.setdefault((ob["base"], tuple(ob["sub"]), ob["rot"]), []).append(ob)
    fams = families(api, quick)
    rec = rl.LaunchRecorder()
    traces, tinfo = [], {}
    rng = np.random.RandomState(chk.seed)
    for gkey, obs in sorted(by_grid.items()):
        grid = rg.build_grid(api, obs[0])
        disc = {k: elementwise(api, grid, k) for k in ("DP0", "DP1", "RWG", "SNC")}
        disc["P1"] = disc["DP1"]
        Adisc = {}
        spaces = {}
        for ob in obs:
            for kind in [ob["kind"]] + (["SNC"] if ob["kind"] == "RWG" else []):
                sig = c09.sig_of(ob, kind)
                problems = []
                try:
                    sp = rs.make_space(api, grid, ob, kind)
                    rs.check_direct_space(api, ob, grid, sp, lambda a, d: problems.append((a, d)), lambda d: None, kind)
                except Exception as exc:
                    problems.append(("exception", "%s: %s" % (type(exc).__name__, exc)))
                if problems:
                    chk.violation(rs.vkey(kind, "T:" + problems[0][0], ob), "coefficient map of %s does not meet Spaces.tla: %s" % (sig, problems[0][1]), {"obligation": {k: ob[k] for k in ob if k != "algo"}})
                    continue
                spaces.setdefault(kind, []).append((sig, ob, sp))
        # choose space pairs: every space as trial with a rotating partner as test (independent supports)
        for name, fac, cd, ct in fams:
            for kd in kinds_for(cd):
                kts = [kd] if cd == "same" else kinds_for(ct)
                for kt in kts:
                    if not spaces.get(kd) or not spaces.get(kt):
                        continue
                    key = (name, kd, kt)
                    try:
                        if key not in Adisc:
                            Adisc[key] = np.asarray(fac(disc[kd], disc[kt]).weak_form().to_dense())
                    except Exception as exc:
                        chk.violation("congruence:%s:exception" % name, "%s on the element-wise spaces (%s, %s) of %s raises %s: %s" % (name, kd, kt, gkey, type(exc).__name__, exc), {"grid": gkey})
                        continue
                    doms = spaces[kd]
                    tests = spaces[kt]
                    picks = range(len(doms)) if not quick else list(range(0, len(doms), max(1, len(doms) // 6)))
                    for n, i in enumerate(picks):
                        sd, obd, spd = doms[i]
                        st, obt, spt = tests[(3 * i + 1) % len(tests)] if cd != "same" else doms[i]
                        if cd == "same":
                            spt, st, obt = spd, sd, obd
                        try:
                            A = np.asarray(fac(spd, spt).weak_form().to_dense())
                        except Exception as exc:
                            chk.violation("congruence:%s:exception" % name, "%s(domain %s, dual %s) raises %s: %s" % (name, sd, st, type(exc).__name__, exc), {"domain": sd, "dual": st})
                            continue
                        W = spt.map_to_full_grid.T.dot(spd.map_to_full_grid.T.dot(Adisc[key].T).T)
                        W = np.asarray(W)
                        sc = max(1e-3, np.abs(W).max()) if W.size else 1.0
                        chk.count((name, sd, st), len(obd["req"]["support"]) >= 2)
                        chk.cov["obligations_replayed"] += 1
                        if A.shape != W.shape or (W.size and np.abs(A - W).max() > TOL * sc):
                            chk.violation("congruence:%s:%s:%s" % (name, kd, kt), "%s(domain %s, dual %s) differs from T'^T A_disc T by %.3g (relative)" % (
                                name, sd, st, (np.abs(A - W).max() / sc) if A.shape == W.shape else float("nan")), {"domain": {k: obd[k] for k in obd if k not in ("algo", "req")}, "dual": {k: obt[k] for k in obt if k not in ("algo", "req")}})
        # plans with independent supports (dense assembler of the Laplace single layer and hypersingular)
        rec.install()
        try:
            for kd, kt, fac in (("DP0", "P1", lambda d, t: api.operators.boundary.laplace.single_layer(d, t, t)),
                                ("P1", "P1", lambda d, t: api.operators.boundary.laplace.hypersingular(d, t, t)),
                                ("RWG", "SNC", lambda d, t: api.operators.boundary.maxwell.electric_field(d, d, t, 0.8))):
                doms, tests = spaces.get(kd, []), spaces.get(kt, [])
                for i in range(0, len(doms), 5 if quick else 2):
                    sd, obd, spd = doms[i]
                    st, obt, spt = tests[(7 * i + 2) % len(tests)]
                    if spd.global_dof_count == 0 or spt.global_dof_count == 0:
                        continue
                    rec.take()
                    fac(spd, spt).weak_form()
                    tid = len(traces) + 1
                    traces.append(rl.make_trace(tid, grid, spt, spd, par.quadrature.singular, rec.take()))
                    tinfo[tid] = (sd, st)
        finally:
            rec.uninstall()
    if traces:
        res2, verdicts = rl.validate(traces, timeout=2400)
        chk.add_tlc("AssemblyTrace (%d plans with independent supports)" % len(traces), res2)
        for t in traces:
            v = verdicts.get(t["id"])
            if v is None:
                raise common.MachineryError("no verdict for trace %d" % t["id"])
            chk.cov["traces_validated_against_impl"] += 1
            if v["verdict"] != "accept":
                sd, st = tinfo[t["id"]]
                chk.violation("plan:%s" % v["verdict"], "assembly plan for domain %s / dual %s rejected: clause %s at event %d of %d" % (sd, st, v["verdict"], v["at"], v["events"]),
                              {"trace": {k: t[k] for k in ("el", "supT", "supS", "ident", "order")}})
    # ---- spaces with the normals of one domain swapped: the companion (localised) space of the singular part must carry them too
    par.quadrature.regular, par.quadrature.singular = 4, 4
    for gkey, obs in sorted(by_grid.items())[: (2 if quick else 6)]:
        grid = rg.build_grid(api, obs[0])
        doms = sorted(set(int(x) for x in grid.domain_indices))
        if len(doms) < 2:
            continue
        for swapped in ([doms[-1]], [doms[0]]):
            try:
                P1s = api.function_space(grid, "P", 1, include_boundary_dofs=True, swapped_normals=swapped)
                D1s = api.function_space(grid, "DP", 1, swapped_normals=swapped)
                D0s = api.function_space(grid, "DP", 0, swapped_normals=swapped)
                T = P1s.map_to_full_grid.toarray()
                b_ = api.operators.boundary
                for name, fac, test_is_p1 in (("laplace.double_layer", lambda d, t: b_.laplace.double_layer(d, t, t), False),
                                              ("laplace.adjoint_double_layer", lambda d, t: b_.laplace.adjoint_double_layer(d, t, t), True),
                                              ("helmholtz.hypersingular", lambda d, t: b_.helmholtz.hypersingular(d, t, t, 0.7 + 0.3j), True)):
                    if name == "laplace.double_layer":
                        A = np.asarray(fac(P1s, D0s).weak_form().to_dense())
                        W = np.asarray(fac(D1s, D0s).weak_form().to_dense()).dot(T)
                    elif name == "laplace.adjoint_double_layer":
                        A = np.asarray(fac(D0s, P1s).weak_form().to_dense())
                        W = T.T.dot(np.asarray(fac(D0s, D1s).weak_form().to_dense()))
                    else:
                        A = np.asarray(fac(P1s, P1s).weak_form().to_dense())
                        W = T.T.dot(np.asarray(fac(D1s, D1s).weak_form().to_dense())).dot(T)
                    chk.count((str(gkey), "swapped", tuple(swapped), name), True)
                    chk.cov["obligations_replayed"] += 1
                    e = np.abs(A - W).max() / max(1e-3, np.abs(W).max())
                    if not (e <= TOL):   # NaN counts as a deviation
                        chk.violation("congruence:%s:swapped_normals" % name, "%s on P1 with swapped_normals=%s differs from T' A T (A on the element-wise space with the same normals) by %.3g on %s" % (
                            name, swapped, e, gkey), {"grid": list(map(str, gkey)), "swapped": swapped})
            except Exception as exc:
                chk.violation("congruence:swapped_normals:exception", "%s: %s on %s" % (type(exc).__name__, str(exc)[:160], gkey), {})
    # ---- nested refinement with exact probes -------------------------------------------------
    surfs = c01.galerkin_obligations(chk, "c04g", "BoxesTiny", "ExtraNone", [0], ["OCT", "TET"], 2)
    lap = api.operators.boundary.laplace
    for s in surfs:
        label = "%s%s n=%d" % (s.h["source"], s.h["name"] or s.h["cells"], s.n)
        for refine, nfine, tag in ((lambda g: g.refine(), 4, "uniform"), (lambda g: g.barycentric_refinement, 6, "barycentric")):
            g = s.grid(api)
            gf = refine(g)
            P1c, P1f = api.function_space(g, "P", 1), api.function_space(gf, "P", 1)
            D0c, D0f = api.function_space(g, "DP", 0), api.function_space(gf, "DP", 0)
            # prolongations by geometry: coarse function evaluated at the fine nodes
            Pp1 = np.zeros((P1f.global_dof_count, P1c.global_dof_count))
            Pd0 = np.zeros((D0f.global_dof_count, D0c.global_dof_count))
            for ef in range(gf.number_of_elements):
                ec = ef // nfine
                Pd0[int(D0f.local2global[ef, 0]), int(D0c.local2global[ec, 0])] = 1.0
                p0, p1, p2 = (g.vertices[:, v] for v in g.elements[:, ec])
                A = np.array([p1 - p0, p2 - p0]).T
                for i in range(3):
                    x = gf.vertices[:, gf.elements[i, ef]]
                    xi = np.linalg.lstsq(A, x - p0, rcond=None)[0]
                    lam = [1 - xi[0] - xi[1], xi[0], xi[1]]
                    for j in range(3):
                        Pp1[int(P1f.local2global[ef, i]), int(P1c.local2global[ec, j])] = lam[j]
            par.quadrature.regular, par.quadrature.singular = 6, 6
            with probes.installed():
                checks = [("single_layer DP0", lap.single_layer, D0c, D0f, Pd0, Pd0), ("double_layer P1->DP0", lap.double_layer, (P1c, D0c), (P1f, D0f), Pp1, Pd0),
                          ("hypersingular P1", lap.hypersingular, P1c, P1f, Pp1, Pp1)]
                for name, fac, sc_, sf_, Pdom, Ptest in checks:
                    dc, tc = sc_ if isinstance(sc_, tuple) else (sc_, sc_)
                    df, tf = sf_ if isinstance(sf_, tuple) else (sf_, sf_)
                    Ac = fac(dc, tc, tc).weak_form().to_dense()
                    Af = fac(df, tf, tf).weak_form().to_dense()
                    R = Ptest.T.dot(Af).dot(Pdom)
                    e = np.abs(R - Ac).max() / max(1e-3, np.abs(Ac).max())
                    chk.count(("nested", s.id, tag, name), True)
                    if not (e <= TOL):   # NaN counts as a deviation
                        chk.violation("nested:%s:%s" % (tag, name.split(" ")[0]), "P^T A_fine P differs from A_coarse by %.3g (probe kernel, %s refinement, %s) on %s" % (e, tag, name, label), {"surface": s.h["cells"]})
            if not quick and s.h["closed"]:
                errs = []
                for o in ((4, 4), (8, 8), (12, 10)):
                    par.quadrature.regular, par.quadrature.singular = o
                    Ac = lap.single_layer(D0c, D0c, D0c).weak_form().to_dense()
                    Af = lap.single_layer(D0f, D0f, D0f).weak_form().to_dense()
                    errs.append(float(np.abs(Pd0.T.dot(Af).dot(Pd0) - Ac).max() / np.abs(Ac).max()))
                chk.part("nested_real_kernel", **{"%s_%s" % (label, tag): errs})
                if not (errs[0] > errs[1] > errs[2]) or errs[2] > 1e-4:
                    chk.violation("nested:real:%s" % tag, "real-kernel nested defect does not vanish as the orders are raised: %s on %s (%s)" % (errs, label, tag), {"errs": errs})
            par.quadrature.regular, par.quadrature.singular = 4, 4
    chk.sample({"example": "A_S = T_test^T A_disc T_trial for every (family, space obligation pair)", "families": [f[0] for f in fams]})
    chk.cov["rule"] = ("one congruence check per (operator family, domain space obligation, dual space obligation with independent support); "
                       "plans of independent supports validated by TLC; nested refinement on small surfaces; non-trivial = support >= 2 elements")
    return chk.finish()


if __name__ == "__main__":
    common.main(body)

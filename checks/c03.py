"""C03 Boundary operators are equivariant under motion, scaling and relabelling.

Spec: Symmetry.tla (lattice rotations, translations, dilations, vertex / element renumbering, local rotations, orientation
reversal; entity maps vmap / emap / lmap with MapsConsistent, GeometryFollows, PlanPreserved) + the homogeneity degrees of
the operator catalogue.  Every (mesh, action) state is replayed: operators are assembled on both grids and compared through
the DOF correspondence the entity maps induce.
"""

import os
import sys

sys.path.insert(0, os.path.dirname(os.path.dirname(os.path.abspath(__file__))))
from harness import common  # noqa: E402

PID = "C03"
CFG = """SPECIFICATION Spec
CONSTANTS
  Bases = {%(bases)s}
  CellSets <- %(cells)s
  Actions <- %(actions)s
  MaxDepth = %(depth)d
  EmitJson = TRUE
INVARIANT MapsConsistent
INVARIANT GeometryFollows
INVARIANT PlanPreserved
INVARIANT OrientationRule
INVARIANT Emit
CHECK_DEADLOCK FALSE
"""
LOCAL_EDGE = [(0, 1), (2, 0), (1, 2)]
TOL = 1e-10


def correspondence(spA, spB, kind, ob):
    """perm[dA] = dB and sign[dA] induced by the entity maps of the obligation."""
    import numpy as np

    elA = np.array(ob["el"]) - 1
    elB = np.array(ob["el2"]) - 1
    emap = np.array(ob["emap"]) - 1
    lmap = np.array(ob["lmap"]) - 1
    n = spA.global_dof_count
    perm = -np.ones(n, dtype=int)
    sign = np.ones(n)
    lA, mA, lB, mB = spA.local2global, spA.local_multipliers, spB.local2global, spB.local_multipliers
    for e in np.flatnonzero(spA.support):
        f = emap[e]
        for i in range(lA.shape[1]):
            if mA[e, i] == 0:
                continue
            if kind == "DP0":
                j = 0
            elif kind in ("DP1", "P1"):
                j = lmap[e][i]
            else:  # edge spaces: local edge i of e -> the local edge of f carrying the image vertices
                a, b = LOCAL_EDGE[i]
                img = {lmap[e][a], lmap[e][b]}
                j = [k for k, (p, q) in enumerate(LOCAL_EDGE) if {p, q} == img][0]
            dA, dB = int(lA[e, i]), int(lB[f, j])
            if mB[f, j] == 0:
                return None, None, "slot (%d,%d) of the image carries no dof" % (f, j)
            s = float(mA[e, i] * mB[f, j])
            if perm[dA] not in (-1, dB):
                return None, None, "dof %d corresponds to two dofs of the image" % dA
            perm[dA] = dB
            sign[dA] = s
    if (perm < 0).any() or len(set(perm.tolist())) != n or spB.global_dof_count != n:
        return None, None, "dof correspondence is not a bijection"
    return perm, sign, None


def catalogue(api, s, quick):
    """(name, factory(dom, dual) on a grid scaled by s, homogeneity degree, trial kinds, test kinds, uses normals)."""
    b = api.operators.boundary
    k = 0.8 + 0.3j
    kr = 0.9
    w = 0.7
    out = [
        ("laplace.single_layer", lambda d, t, s=1: b.laplace.single_layer(d, t, t), 3, ["DP0", "P1", "DP1"], ["DP0", "P1"], False),
        ("laplace.double_layer", lambda d, t, s=1: b.laplace.double_layer(d, t, t), 2, ["P1", "DP0"], ["DP0", "P1"], True),
        ("laplace.adjoint_double_layer", lambda d, t, s=1: b.laplace.adjoint_double_layer(d, t, t), 2, ["DP0"], ["P1", "DP0"], True),
        ("laplace.hypersingular", lambda d, t, s=1: b.laplace.hypersingular(d, t, t), 1, ["P1"], ["P1"], True),
        ("helmholtz.single_layer", lambda d, t, s=1: b.helmholtz.single_layer(d, t, t, k / s), 3, ["P1"], ["DP0"], False),
        ("helmholtz.hypersingular", lambda d, t, s=1: b.helmholtz.hypersingular(d, t, t, k / s), 1, ["P1"], ["P1"], True),
        ("maxwell.electric_field", lambda d, t, s=1: b.maxwell.electric_field(d, d, t, k / s), 2, ["RWG"], ["SNC"], True),
        ("sparse.identity", lambda d, t, s=1: b.sparse.identity(d, d, t), 2, ["P1", "RWG"], ["DP0", "RWG"], False),
        ("sparse.laplace_beltrami", lambda d, t, s=1: b.sparse.laplace_beltrami(d, d, t), 0, ["P1"], ["P1"], False),
    ]
    if not quick:
        out += [
            ("helmholtz.double_layer", lambda d, t, s=1: b.helmholtz.double_layer(d, t, t, kr / s), 2, ["P1"], ["DP0"], True),
            ("helmholtz.adjoint_double_layer", lambda d, t, s=1: b.helmholtz.adjoint_double_layer(d, t, t, k / s), 2, ["DP0"], ["P1"], True),
            ("modified_helmholtz.single_layer", lambda d, t, s=1: b.modified_helmholtz.single_layer(d, t, t, w / s), 3, ["DP0"], ["DP0"], False),
            ("modified_helmholtz.hypersingular", lambda d, t, s=1: b.modified_helmholtz.hypersingular(d, t, t, w / s), 1, ["P1"], ["P1"], True),
            ("maxwell.magnetic_field", lambda d, t, s=1: b.maxwell.magnetic_field(d, d, t, kr / s), 2, ["RWG"], ["SNC"], True),
        ]
    return out


def body():
    chk = common.Check(PID, "model_checking")
    api = common.use_repo()
    import numpy as np
    from harness import probes

    chk.assume(
        "homogeneity degrees (single layer 3; double layer, adjoint, identity, Maxwell E and M 2; hypersingular 1; Laplace-Beltrami 0) are entered "
        "from the operator catalogue of the design (DESIGN 3.11)",
        "rigid motions and dilations are judged with the real kernels to rounding; renumbering, local rotation and reversal change which Duffy remap is "
        "used, so with the real kernels they hold up to singular-quadrature error: they are judged to rounding with the polynomial probe kernels "
        "(quick) and with the real kernels at orders (8,8) against 1e-3 (thorough; observed defects on the coarse meshes are of order 1e-5, a wrong map gives O(1))",
        "edge-space signs follow from the implementation's own multipliers on both grids (validated by C09)",
    )
    quick = chk.tier == "quick"
    tmpcfg = os.path.join(common.SPEC, "_c03_%d.cfg" % os.getpid())
    with open(tmpcfg, "w") as f:
        f.write(CFG % dict(bases='"OCT", "STRIP8", "TET"' if quick else '"OCT", "STRIP8", "TET", "CUBE12", "DISJ"',
                           cells="CellsQuick" if quick else "CellsThorough", actions="ActionsQuick" if quick else "ActionsThorough", depth=2))
    try:
        res = common.run_tlc("Symmetry", os.path.basename(tmpcfg), timeout=3000)
    finally:
        os.remove(tmpcfg)
    chk.add_tlc("Symmetry", res)
    if not res.ok:
        chk.violation("spec:" + str(res.violated), "TLC: Symmetry violates %s" % res.violated, {"trace": res.trace[-1:]})
        return chk.finish()
    par = api.GLOBAL_PARAMETERS
    KIND = {"DP0": ("DP", 0), "DP1": ("DP", 1), "P1": ("P", 1), "RWG": ("RWG", 0), "SNC": ("SNC", 0)}
    cases_e, cases_v = 0, 0
    lapl = api.operators.boundary.laplace
    for n, ob in enumerate(res.obligations):
        act = ob["act"]
        label = "%s %s(%s)" % (ob["mesh"], act["kind"], act["p"])
        cases_e, cases_v = max(cases_e, ob["edgeCases"]), max(cases_v, ob["vertexCases"])

        def fail(key, detail, ob=ob, label=label):
            chk.violation(key, "%s on %s" % (detail, label), {"obligation": {k: ob[k] for k in ("mesh", "act", "xyz", "el", "xyz2", "el2")}})

        try:
            VA = np.array(ob["xyz"], dtype=float).T
            EA = (np.array(ob["el"]) - 1).T.astype("uint32")
            VB = np.array(ob["xyz2"], dtype=float).T
            EB = (np.array(ob["el2"]) - 1).T.astype("uint32")
            ne = EA.shape[1]
            dom = np.array([(e % 2) * 4 for e in range(ne)], dtype="uint32")
            emap = np.array(ob["emap"]) - 1
            domB = np.zeros(ne, dtype="uint32")
            domB[emap] = dom
            gA, gB = api.Grid(VA, EA, dom), api.Grid(VB, EB, domB)
            s = ob["s"]
            kind_act = act["kind"]
            spaces = {}

            def sp(grid, which, kind, **kw):
                key = (which, kind, repr(sorted(kw.items())))
                if key not in spaces:
                    k, deg = KIND[kind]
                    extra = {} if kind in ("DP0", "DP1") else {"include_boundary_dofs": True}
                    spaces[key] = api.function_space(grid, k, deg, **extra, **kw)
                return spaces[key]

            def compare(name, fac, deg, kd, kt, kwA=None, probe=False, tol=TOL, kwB=None):
                kwA = kwA or {}
                kwB = kwB or {}
                dA, tA = sp(gA, "A", kd, **kwA), sp(gA, "A", kt, **kwA)
                dB, tB = sp(gB, "B", kd, **kwB), sp(gB, "B", kt, **kwB)
                pd, sd, err = correspondence(dA, dB, kd, ob)
                pt, st, err2 = correspondence(tA, tB, kt, ob)
                if err or err2:
                    fail("correspondence:%s" % kind_act, "%s/%s spaces: %s" % (kd, kt, err or err2))
                    return
                A = np.asarray(fac(dA, tA).weak_form().to_dense())
                B = np.asarray(fac(dB, tB, s).weak_form().to_dense() if not probe else fac(dB, tB).weak_form().to_dense())
                W = (s ** deg) * A
                Bp = B[np.ix_(pt, pd)] * np.outer(st, sd)
                sc = max(1e-3, np.abs(W).max())
                e = np.abs(Bp - W).max() / sc
                chk.count((label, name, kd, kt, probe), ne >= 2)
                chk.cov["obligations_replayed"] += 1
                if not (e <= tol):   # NaN counts as a deviation
                    fail("equivariance:%s:%s" % (kind_act, name), "%s (%s -> dual %s%s) on the transformed grid differs from %s x the permuted original by %.3g" % (
                        name, kd, kt, ", probe kernel" if probe else "", "s^%d" % deg if s != 1 else "1", e))

            par.quadrature.regular, par.quadrature.singular = 4, 4
            if kind_act in ("rot", "shift", "scale"):
                for name, fac, deg, kds, kts, _ in catalogue(api, s, quick):
                    if name.startswith("maxwell") and not ob["closed"] and False:
                        continue
                    for kd in kds[: (1 if quick and n % 3 else len(kds))]:
                        for kt in kts[: (1 if quick and n % 2 else len(kts))]:
                            if name == "sparse.identity" and (kd == "RWG") != (kt == "RWG"):
                                continue
                            compare(name, fac, deg, kd, kt)
                            if ne >= 4 and (not quick or n % 4 == 0):
                                compare(name + "[segment]", fac, deg, kd, kt, kwA={"segments": [4]}, kwB={"segments": [4]})
            elif kind_act in ("vperm", "eperm", "lrot"):
                # exact with probe kernels (orders high enough for exactness)
                par.quadrature.regular, par.quadrature.singular = 6, 6
                with probes.installed():
                    compare("laplace.single_layer", lambda d, t, s=1: lapl.single_layer(d, t, t), 3, "P1", "DP1", probe=True)
                    compare("laplace.single_layer", lambda d, t, s=1: lapl.single_layer(d, t, t), 3, "DP0", "P1", probe=True)
                    compare("laplace.double_layer", lambda d, t, s=1: lapl.double_layer(d, t, t), 2, "P1", "DP0", probe=True)
                    compare("laplace.adjoint_double_layer", lambda d, t, s=1: lapl.adjoint_double_layer(d, t, t), 2, "DP0", "P1", probe=True)
                    compare("laplace.hypersingular", lambda d, t, s=1: lapl.hypersingular(d, t, t), 1, "P1", "P1", probe=True)
                par.quadrature.regular, par.quadrature.singular = 4, 4
                # operators without singular quadrature are exact with the real code as well
                for name, fac, deg, kds, kts, _ in catalogue(api, 1, True):
                    if name.startswith("sparse"):
                        for kd in kds:
                            for kt in kts:
                                if name == "sparse.identity" and (kd == "RWG") != (kt == "RWG"):
                                    continue
                                compare(name, fac, deg, kd, kt)
                                if ne >= 4:
                                    # the same on the segment of the odd elements (domain index 4 follows the elements to their new numbers)
                                    compare(name + "[segment]", fac, deg, kd, kt, kwA={"segments": [4]}, kwB={"segments": [4]})
                if not quick:
                    par.quadrature.regular, par.quadrature.singular = 8, 8
                    for name, fac, deg, kds, kts, _ in catalogue(api, 1, True):
                        if not name.startswith("sparse"):
                            compare(name, fac, deg, kds[0], kts[0], tol=1e-3)
                    par.quadrature.regular, par.quadrature.singular = 4, 4
            elif kind_act == "flip":
                # original grid with the swapped-normals flag on every segment  vs  physically reversed grid
                kwA = {"swapped_normals": sorted(set(dom.tolist()))}
                par.quadrature.regular, par.quadrature.singular = 6, 6
                with probes.installed():
                    compare("laplace.single_layer", lambda d, t, s=1: lapl.single_layer(d, t, t), 3, "P1", "DP1", kwA=kwA, probe=True)
                    compare("laplace.double_layer", lambda d, t, s=1: lapl.double_layer(d, t, t), 2, "P1", "DP0", kwA=kwA, probe=True)
                    compare("laplace.adjoint_double_layer", lambda d, t, s=1: lapl.adjoint_double_layer(d, t, t), 2, "DP0", "P1", kwA=kwA, probe=True)
                    compare("laplace.hypersingular", lambda d, t, s=1: lapl.hypersingular(d, t, t), 1, "P1", "P1", kwA=kwA, probe=True)
                par.quadrature.regular, par.quadrature.singular = 4, 4
                compare("sparse.identity", lambda d, t, s=1: api.operators.boundary.sparse.identity(d, d, t), 2, "P1", "DP0", kwA=kwA)
                # partial flag: only one segment swapped vs only its elements reversed
                if len(set(dom.tolist())) > 1:
                    seg = int(max(dom))
                    EB2 = EA.copy()
                    for e in range(ne):
                        if dom[e] == seg:
                            EB2[:, e] = EA[[0, 2, 1], e]
                    gB2 = api.Grid(VA, EB2, dom)
                    ob2 = dict(ob, el2=(EB2.T + 1).tolist(), lmap=[[1, 3, 2] if dom[e] == seg else [1, 2, 3] for e in range(ne)])
                    par.quadrature.regular, par.quadrature.singular = 6, 6
                    with probes.installed():
                        for name, fac, kd, kt in (("laplace.double_layer", lambda d, t: lapl.double_layer(d, t, t), "P1", "DP0"),
                                                  ("laplace.hypersingular", lambda d, t: lapl.hypersingular(d, t, t), "P1", "P1")):
                            dA = api.function_space(gA, *KIND[kd], **({} if kd == "DP0" else {"include_boundary_dofs": True}), swapped_normals=[seg])
                            tA = api.function_space(gA, *KIND[kt], **({} if kt == "DP0" else {"include_boundary_dofs": True}), swapped_normals=[seg])
                            dB = api.function_space(gB2, *KIND[kd], **({} if kd == "DP0" else {"include_boundary_dofs": True}))
                            tB = api.function_space(gB2, *KIND[kt], **({} if kt == "DP0" else {"include_boundary_dofs": True}))
                            pd, sd, e1 = correspondence(dA, dB, kd, ob2)
                            pt, st, e2 = correspondence(tA, tB, kt, ob2)
                            if e1 or e2:
                                fail("correspondence:flip_segment", e1 or e2)
                                continue
                            A = np.asarray(fac(dA, tA).weak_form().to_dense())
                            B = np.asarray(fac(dB, tB).weak_form().to_dense())[np.ix_(pt, pd)]
                            chk.count((label, name, "segment_flip"), True)
                            if not (np.abs(A - B).max() <= TOL * max(1e-3, np.abs(A).max())):   # NaN counts as a deviation
                                fail("equivariance:flip_segment:%s" % name, "%s with swapped_normals=[%d] differs from the grid with that segment reversed by %.3g (probe kernel)" % (
                                    name, seg, np.abs(A - B).max() / max(1e-3, np.abs(A).max())))
                    par.quadrature.regular, par.quadrature.singular = 4, 4
            if n % 9 == 0:
                chk.sample({"mesh": ob["mesh"], "action": act, "s": s, "vmap": ob["vmap"], "emap": ob["emap"], "lmap": ob["lmap"][:3]})
        except Exception as exc:
            import traceback

            fail("exception", "%s: %s | %s" % (type(exc).__name__, exc, traceback.format_exc()[-300:].replace("\n", " | ")))
        finally:
            par.quadrature.regular, par.quadrature.singular = 4, 4
    chk.cov["remap_cases_reached"] = {"edge": cases_e, "vertex": cases_v, "note": "distinct matched-index sets in one image mesh (9 = all that a consistently oriented surface can have)"}
    chk.cov["rule"] = "one obligation per (mesh, action, operator, space pair); non-trivial = mesh with >= 2 elements"
    return chk.finish()


if __name__ == "__main__":
    common.main(body)

"""C07 Boundary operators between disjoint grids equal Galerkin-tested potentials.

Spec: Assembly.tla / AssemblyTrace.tla with non-identical grids (every pair is of class "reg", one launch per colour of the
test space, no singular plan); Symmetry.tla supplies pairs of non-touching grids (a mesh and its translate, and translates
of different meshes); the ordering nq*e + q of Grid.map_to_point_cloud is part of the relation.
Binding: recorded plans are validated by TLC; the matrices are compared with
   A[i,j] = sum_{e,q} w_q J_e  phi_i(x_eq) . Pot[psi_j](x_eq)
using the library's own potential operators at the library's own point cloud (to rounding for single/double layer of every
scalar family and the Maxwell magnetic field, up to quadrature error for the electric field).
"""

import os
import sys

sys.path.insert(0, os.path.dirname(os.path.dirname(os.path.abspath(__file__))))
from harness import common  # noqa: E402

PID = "C07"
CFG = """SPECIFICATION Spec
CONSTANTS
  Bases = {%s}
  CellSets <- CellsQuick
  Actions <- ActionsShift
  MaxDepth = 1
  EmitJson = TRUE
INVARIANT MapsConsistent
INVARIANT GeometryFollows
INVARIANT PlanPreserved
INVARIANT Emit
CHECK_DEADLOCK FALSE
"""
TOL = 1e-10


def body():
    chk = common.Check(PID, "model_checking")
    api = common.use_repo()
    import numpy as np
    from bempp_cl.api.integration.triangle_gauss import rule
    from harness import record_launch as rl

    chk.assume(
        "the potential operators and map_to_point_cloud of the library are used on the right-hand side (relation between two observables of the library)",
        "translated copies by (3,-6,1), (-2,4,1) resp. (6,-12,1) of meshes of diameter <= 6.5 do not touch the original; pairs of different meshes use the same translations",
        "Maxwell electric field: agreement up to quadrature error only, judged for well separated grids (distance >= largest element diameter) and test "
        "spaces without boundary dofs (the identity integrates by parts on the test side): 5e-3 at order 4, 1e-4 at order 7",
    )
    quick = chk.tier == "quick"
    tmpcfg = os.path.join(common.SPEC, "_c07_%d.cfg" % os.getpid())
    with open(tmpcfg, "w") as f:
        f.write(CFG % ('"OCT", "STRIP8", "TET"' if quick else '"OCT", "STRIP8", "TET", "CUBE12"'))
    try:
        res = common.run_tlc("Symmetry", os.path.basename(tmpcfg), timeout=3000)
    finally:
        os.remove(tmpcfg)
    chk.add_tlc("Symmetry (translations)", res)
    if not res.ok:
        chk.violation("spec:" + str(res.violated), "TLC: Symmetry violates %s" % res.violated, {})
        return chk.finish()
    obs = res.obligations
    pairs = []
    for ob in obs:
        pairs.append((ob["mesh"], ob["xyz"], ob["el"], ob["mesh"] + "+t(%d)" % ob["act"]["p"], ob["xyz2"], ob["el2"]))
    for a, bb in zip(obs, obs[1:] + obs[:1]):
        if a["mesh"] != bb["mesh"]:
            pairs.append((a["mesh"], a["xyz"], a["el"], bb["mesh"] + "+t(%d)" % bb["act"]["p"], bb["xyz2"], bb["el2"]))
    # far pairs of different meshes (the quadrature-limited electric-field clause is judged for well separated grids)
    firsts = {}
    for ob in obs:
        firsts.setdefault(ob["mesh"], ob)
    far = [ob for ob in obs if ob["act"]["p"] == 6]
    for i, bb in enumerate(far):
        others = [m for m in sorted(firsts) if m != bb["mesh"]]
        a = firsts[others[i % len(others)]]
        pairs.append((a["mesh"], a["xyz"], a["el"], bb["mesh"] + "+t(6)", bb["xyz2"], bb["el2"]))
    if quick:
        same = [q for q in pairs if q[3].startswith(q[0] + "+t")]
        diff = [q for q in pairs if not q[3].startswith(q[0] + "+t")]
        diff.sort(key=lambda q: not q[3].endswith("+t(6)"))     # far pairs first: the electric-field clause is judged for well separated grids
        pairs = same[:3] + diff[:3]        # different meshes: element k of grid A and element k of grid B have different sizes
    b = api.operators.boundary
    p = api.operators.potential
    par = api.GLOBAL_PARAMETERS
    rec = rl.LaunchRecorder()
    traces, tinfo = [], {}
    k, kr, w0 = 0.8 + 0.2j, 0.9, 0.6
    for pi, (na, xa, ea, nb, xb, eb) in enumerate(pairs):
        label = "%s | %s" % (na, nb)

        def fail(key, detail, label=label, xa=xa, ea=ea, xb=xb, eb=eb):
            chk.violation(key, "%s on %s" % (detail, label), {"gridA": {"xyz": xa, "el": ea}, "gridB": {"xyz": xb, "el": eb}})

        try:
            gA = api.Grid(np.array(xa, dtype=float).T, (np.array(ea) - 1).T.astype("uint32"), np.array([(e % 2) * 3 for e in range(len(ea))], dtype="uint32"))
            gB = api.Grid(np.array(xb, dtype=float).T, (np.array(eb) - 1).T.astype("uint32"), np.array([(e % 2) * 3 for e in range(len(eb))], dtype="uint32"))
            dmin = np.min(np.linalg.norm(gA.vertices[:, :, None] - gB.vertices[:, None, :], axis=0))
            if dmin < 1.0:
                raise common.MachineryError("grids of the pair %s touch (distance %.3g)" % (label, dmin))
            for order in (4,) if quick else (4, 7):
                par.quadrature.regular, par.quadrature.singular = order, order - 1    # disjoint grids: the singular order must not matter
                pts, w = rule(order)
                nq = len(w)
                cloud = gB.map_to_point_cloud(order)
                if cloud.shape != (nq * gB.number_of_elements, 3):
                    fail("point_cloud:shape", "map_to_point_cloud(%d) has shape %s" % (order, cloud.shape))
                    continue
                # ordering nq*e+q: point q of element e
                ok = True
                for e in range(gB.number_of_elements):
                    v = gB.vertices[:, gB.elements[:, e]]
                    x = v[:, [0]] * (1 - pts[0] - pts[1]) + v[:, [1]] * pts[0] + v[:, [2]] * pts[1]
                    if not (np.abs(cloud[nq * e : nq * e + nq].T - x).max() <= 1e-13):   # NaN counts as a deviation
                        ok = False
                if not ok:
                    fail("point_cloud:order", "map_to_point_cloud(%d) is not ordered as nq*e+q with the points of the triangle rule" % order)
                    continue

                def tested(pot, trial, test, mode="plain"):
                    out = np.zeros((test.global_dof_count, trial.global_dof_count), dtype=complex)
                    T = test.map_to_full_grid.toarray()
                    nsh = test.number_of_shape_functions
                    for j in range(trial.global_dof_count):
                        c = np.zeros(trial.global_dof_count)
                        c[j] = 1.0
                        vals = np.asarray(pot.evaluate(api.GridFunction(trial, coefficients=c)))
                        loc = np.zeros(nsh * gB.number_of_elements, dtype=complex)
                        for e in np.flatnonzero(test.support):
                            tv = test.evaluate(int(e), pts)
                            f = vals[:, nq * e : nq * e + nq]
                            if mode == "xn":
                                f = np.cross(f.T, gB.normals[e] * test.normal_multipliers[e]).T
                            for i in range(nsh):
                                # evaluate() already contains the local multipliers: undo them, T re-applies them
                                m = test.local_multipliers[e, i]
                                if m != 0:
                                    loc[nsh * e + i] = (tv[:, i, :] * f).sum(axis=0).dot(w) * gB.integration_elements[e] / m
                        out[:, j] = T.T.dot(loc)
                    return out

                segA = {"segments": [3]} if pi % 2 else {"swapped_normals": [3]}     # whole-grid trial spaces: normals of domain 3 swapped
                segB = {"segments": [0]} if pi % 3 == 1 else ({"swapped_normals": [0]} if pi % 3 == 2 else {})
                spA = {"P1": api.function_space(gA, "P", 1, include_boundary_dofs=True, **segA), "DP0": api.function_space(gA, "DP", 0, **segA),
                       "RWG": api.function_space(gA, "RWG", 0, include_boundary_dofs=True, **segA)}
                spB = {"P1": api.function_space(gB, "P", 1, include_boundary_dofs=True, **segB), "DP0": api.function_space(gB, "DP", 0, **segB), "DP1": api.function_space(gB, "DP", 1, **segB),
                       "RWG": api.function_space(gB, "RWG", 0, include_boundary_dofs=True, **segB), "SNC": api.function_space(gB, "SNC", 0, include_boundary_dofs=True, **segB)}
                cases = [
                    ("laplace.single_layer", lambda d, t: b.laplace.single_layer(d, t, t), lambda d: p.laplace.single_layer(d, cloud.T), "P1", "DP1"),
                    ("laplace.double_layer", lambda d, t: b.laplace.double_layer(d, t, t), lambda d: p.laplace.double_layer(d, cloud.T), "P1", "DP0"),
                    ("helmholtz.single_layer", lambda d, t: b.helmholtz.single_layer(d, t, t, k), lambda d: p.helmholtz.single_layer(d, cloud.T, k), "DP0", "P1"),
                    ("helmholtz.double_layer", lambda d, t: b.helmholtz.double_layer(d, t, t, k), lambda d: p.helmholtz.double_layer(d, cloud.T, k), "P1", "P1"),
                    ("modified_helmholtz.single_layer", lambda d, t: b.modified_helmholtz.single_layer(d, t, t, w0), lambda d: p.modified_helmholtz.single_layer(d, cloud.T, w0), "DP0", "DP0"),
                    ("modified_helmholtz.double_layer", lambda d, t: b.modified_helmholtz.double_layer(d, t, t, w0), lambda d: p.modified_helmholtz.double_layer(d, cloud.T, w0), "P1", "DP0"),
                ]
                for name, bop, pop, kd, kt in cases if not quick or order == 4 else cases[:2]:
                    A = np.asarray(bop(spA[kd], spB[kt]).weak_form().to_dense())
                    W = tested(pop(spA[kd]), spA[kd], spB[kt])
                    chk.count((label, name, order), True)
                    chk.cov["obligations_replayed"] += 1
                    e_ = np.abs(A - W).max() / max(1e-12, np.abs(W).max())
                    if A.shape != W.shape or e_ > TOL:
                        fail("tested_potential:%s" % name, "%s (domain %s on grid A, dual %s on grid B, order %d) differs from the Galerkin-tested potential by %.3g" % (name, kd, kt, order, e_))
                # Maxwell
                Mm = np.asarray(b.maxwell.magnetic_field(spA["RWG"], spB["RWG"], spB["SNC"], k).weak_form().to_dense())
                Wm = tested(p.maxwell.magnetic_field(spA["RWG"], cloud.T, k), spA["RWG"], spB["SNC"], "xn")
                chk.count((label, "maxwell.magnetic_field", order), True)
                e_ = np.abs(Mm - Wm).max() / max(1e-12, np.abs(Wm).max())
                if not (e_ <= TOL):   # NaN counts as a deviation
                    fail("tested_potential:maxwell.magnetic_field", "magnetic-field matrix differs from the tested (potential x n) by %.3g (order %d)" % (e_, order))
                # the electric-field identity integrates by parts on the test side: test functions must not carry boundary flux
                sncE = api.function_space(gB, "SNC", 0, include_boundary_dofs=False, **segB)
                rwgE = api.function_space(gB, "RWG", 0, include_boundary_dofs=False, **segB)
                if not sncE.local_multipliers.any():
                    continue
                Em = np.asarray(b.maxwell.electric_field(spA["RWG"], rwgE, sncE, k).weak_form().to_dense())
                We = tested(p.maxwell.electric_field(spA["RWG"], cloud.T, k), spA["RWG"], sncE, "xn")
                e_ = np.abs(Em - We).max() / max(1e-12, np.abs(We).max())
                chk.part("efield_quadrature_defect", **{"%s order %d" % (label, order): float(e_)})
                chk.count((label, "maxwell.electric_field", order), True)
                # quadrature-limited clause: judged only for well separated grids (distance >= largest element diameter)
                hmax = max(float(gA.diameters.max()), float(gB.diameters.max()))
                if dmin >= hmax and e_ > (5e-3 if order == 4 else 1e-4):
                    fail("tested_potential:maxwell.electric_field", "electric-field matrix differs from the tested electric potential by %.3g at order %d" % (e_, order))
                # recorded plans on different grids
                if order == 4:
                    rec.install()
                    try:
                        for name, op, tsp, ssp in (("laplace.single_layer", b.laplace.single_layer(spA["P1"], spB["DP1"], spB["DP1"]), spB["DP1"], spA["P1"]),
                                                   ("helmholtz.hypersingular", b.helmholtz.hypersingular(spA["P1"], spB["P1"], spB["P1"], k), spB["P1"], spA["P1"]),
                                                   ("maxwell.electric_field", b.maxwell.electric_field(spA["RWG"], spB["RWG"], spB["SNC"], k), spB["SNC"], spA["RWG"])):
                            rec.take()
                            op.weak_form()
                            tid = len(traces) + 1
                            tr = rl.make_trace(tid, gB, tsp, ssp, 4, rec.take())
                            tr["el"] = (gB.elements.T.astype(int) + 1).tolist()
                            # element ids of the trial grid live in another id space: shift them so that no element is shared
                            off = gB.number_of_elements
                            tr["supS"] = [x + off for x in tr["supS"]]
                            tr["el"] = tr["el"] + (gA.elements.T.astype(int) + 1 + gB.number_of_vertices).tolist()
                            for ev in tr["events"]:
                                if ev["ev"] == "regular":
                                    ev["trial"] = [x + off for x in ev["trial"]]
                                else:
                                    ev["trial"] = [x + off for x in ev["trial"]]
                            tr["rows"] = tr["rows"] + [[0, 0, 0]] * gA.number_of_elements
                            traces.append(tr)
                            tinfo[tid] = (label, name)
                    finally:
                        rec.uninstall()
            if pi < 2:
                chk.sample({"pair": label, "distance": float(dmin)})
        except common.MachineryError:
            raise
        except Exception as exc:
            import traceback
            fail("exception", "%s: %s | %s" % (type(exc).__name__, exc, traceback.format_exc()[-300:].replace("\n", " | ")))
        finally:
            par.quadrature.regular, par.quadrature.singular = 4, 4
    if traces:
        res2, verdicts = rl.validate(traces, timeout=2400)
        chk.add_tlc("AssemblyTrace (%d plans on different grids)" % len(traces), res2)
        for t in traces:
            v = verdicts.get(t["id"])
            if v is None:
                raise common.MachineryError("no verdict for trace %d" % t["id"])
            chk.cov["traces_validated_against_impl"] += 1
            if v["verdict"] != "accept":
                label, name = tinfo[t["id"]]
                chk.violation("plan:%s:%s" % (name, v["verdict"]), "assembly plan of %s on %s rejected: clause %s at event %d of %d" % (name, label, v["verdict"], v["at"], v["events"]), {"trace": {k2: t[k2] for k2 in ("supT", "supS", "ident")}})
    chk.cov["rule"] = "one obligation per (grid pair, operator, order); grid pairs from the translation states of Symmetry.tla (same mesh and different meshes)"
    return chk.finish()


if __name__ == "__main__":
    common.main(body)

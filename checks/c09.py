"""C09 Function spaces are conforming and their DOF maps are coherent.

TLC (spec/SpaceModel.tla + Spaces.tla) explores mesh x support selection x option
pair x kind, runs the transcribed DOF-map algorithms and checks them against the
numbering-free requirement; every terminal state is replayed into function_space().
"""

import os
import sys

sys.path.insert(0, os.path.dirname(os.path.dirname(os.path.abspath(__file__))))
from harness import common  # noqa: E402

PID = "C09"

CFG = """SPECIFICATION Spec
CONSTANTS
  Bases = {%(bases)s}
  MaxDrop = %(drop)d
  Kinds = {%(kinds)s}
  Rot = %(rot)d
  SupportModes = {"all", "seg", "sup"}
  EmitJson = TRUE
INVARIANT InputSane
INVARIANT AlgoMeetsReq
INVARIANT RWGSigns
INVARIANT AliasOwn
INVARIANT ColouringValid
INVARIANT ColouringComplete
INVARIANT Emit
CHECK_DEADLOCK FALSE
"""

ACTIONS = ["StartDP", "StartP1", "StartRWG", "RWGEdgeStep", "RWGElemEnd", "RWGFinish", "ColourStep", "ColourDone"]


def runs(tier):
    allk = ["DP0", "DP1", "P1", "RWG"]
    if tier == "quick":
        yield dict(bases=["OCT", "STRIP8", "TET", "DISJ", "BOW"], drop=1, kinds=allk, rot=1)
    else:
        for rot in (0, 1, 2):
            yield dict(bases=["OCT", "STRIP8", "TET", "DISJ", "BOW"], drop=2 if rot == 1 else 1, kinds=allk, rot=rot)
        yield dict(bases=["CUBE12"], drop=1, kinds=["P1", "RWG"], rot=2)


def tlc_spaces(chk, kw, tag):
    tmpcfg = os.path.join(common.SPEC, "_%s_%d.cfg" % (tag, os.getpid()))
    with open(tmpcfg, "w") as f:
        f.write(CFG % dict(bases=", ".join('"%s"' % b for b in kw["bases"]), drop=kw["drop"],
                           kinds=", ".join('"%s"' % k for k in kw["kinds"]), rot=kw["rot"]))
    try:
        res = common.run_tlc("SpaceModel", os.path.basename(tmpcfg), timeout=3400)
    finally:
        os.remove(tmpcfg)
    chk.add_tlc("SpaceModel %s" % kw, res)
    return res


def sig_of(ob, kind=None):
    return "%s/%s/%s/r%d/%s%s%s/ibd%d/tr%d" % (
        kind or ob["kind"], ob["base"], "".join(map(str, ob["sub"])), ob["rot"], ob["mode"],
        "".join(map(str, ob["segs"])), "".join(map(str, ob["supp"])), ob["ibd"], ob["trunc"])


def body():
    chk = common.Check(PID, "model_checking")
    api = common.use_repo()
    from harness import replay_grid as rg, replay_space as rs, replay_dual as rd

    chk.assume(
        "TLC evaluates Spaces.tla/SpaceModel.tla correctly; obligations converted at the JSON boundary (1-based ids)",
        "universe: bases with <= MaxDrop elements removed x {all, 7 segment subsets, 6 support_elements patterns} x 4 option pairs (DESIGN 4 U1/U4); zero-DOF selections excluded",
        "SNC tangential continuity is required only across edges whose two elements use the same normal orientation (DESIGN 5 C09)",
    )
    grids = {}
    n = 0
    conf = 0
    for kw in runs(chk.tier):
        res = tlc_spaces(chk, kw, "c09")
        if not res.ok:
            chk.violation("spec:" + str(res.violated), "TLC: SpaceModel violates %s\n%s" % (res.violated, "\n".join(res.trace[-2:])), {"cfg": kw})
            continue
        need = [a for a in ACTIONS if not ((a == "StartDP" and not {"DP0", "DP1"} & set(kw["kinds"])) or (a == "StartP1" and "P1" not in kw["kinds"])
                                           or (a in ("StartRWG", "RWGEdgeStep", "RWGElemEnd", "RWGFinish") and "RWG" not in kw["kinds"]))]
        chk.require_coverage(res, need)
        for ob in res.obligations:
            n += 1
            gkey = (ob["base"], tuple(ob["sub"]), ob["rot"])
            if gkey not in grids:
                grids[gkey] = rg.build_grid(api, ob)
            grid = grids[gkey]
            kinds = [ob["kind"]] + (["SNC"] if ob["kind"] == "RWG" else [])
            for kind in kinds:
                sig = sig_of(ob, kind)

                def fail(aspect, detail, ob=ob, sig=sig, kind=kind):
                    chk.violation(rs.vkey(kind, aspect, ob), "%s on %s: %s" % (aspect, sig, detail),
                                  {"obligation": {k: ob[k] for k in ob if k != "algo"}, "kind": kind})

                drifted = []
                try:
                    space = rs.make_space(api, grid, ob, kind)
                    rs.check_direct_space(api, ob, grid, space, fail, drifted.append, kind)
                    if kind in ("P1", "RWG", "SNC"):
                        conf += rs.check_conformity(ob, grid, space, fail, kind)
                    if kind in ("DP0", "P1"):
                        rs.check_partition_of_unity(ob, space, fail, kind)
                except Exception as exc:
                    fail("exception", "%s: %s" % (type(exc).__name__, exc))
                for d in drifted[:1]:
                    if len(chk.drift) < 5:
                        chk.model_drift("%s: %s" % (sig, d))
                chk.count(sig, len(ob["req"]["support"]) >= 2)
            # dual / Buffa-Christiansen spaces built on the same selection
            try:
                rd.check_dual_for_obligation(api, chk, ob, grid, sig_of)
            except Exception as exc:
                chk.violation("dual:exception", "%s on %s: %s" % (type(exc).__name__, sig_of(ob), exc), {"obligation": {k: ob[k] for k in ob if k != "algo"}})
            chk.cov["obligations_replayed"] += 1
            if n % 397 == 1:
                chk.sample({k: ob[k] for k in ("kind", "base", "sub", "mode", "segs", "supp", "ibd", "trunc", "el", "dom")})
    # ---- directed: multi-domain grids with an internal interface (three sheets meet at the junction edges); spaces on two of the sheets are
    # spaces on a manifold support and must be conforming across the junction edges, whichever sheet holds the smallest element numbers
    import numpy as np
    Vt = np.array([[0, 0, 0], [3, 0, 0], [0, 3, 0], [1, 1, 2], [1, 1, -2]], dtype=float).T
    up = [[0, 1, 3], [1, 2, 3], [2, 0, 3]]
    down = [[1, 0, 4], [2, 1, 4], [0, 2, 4]]
    mid = [[0, 1, 2]]
    for order_name, sheets in (("interface last", (up, down, mid)), ("interface first", (mid, up, down)), ("interface in the middle", (up, mid, down))):
        els, dom = [], []
        for sh in sheets:
            for t in sh:
                els.append(t)
                dom.append(1 if sh is up else (2 if sh is down else 3))
        gt = api.Grid(Vt, np.array(els).T.astype("uint32"), np.array(dom, dtype="uint32"))
        obt = {"el": (np.array(els) + 1).tolist(), "xyz": Vt.T.tolist()}
        for segs in ([1, 2], [1, 3], [2, 3]):
            tri = [t for t, d_ in zip(els, dom) if d_ in segs]
            nverts = len(set(v for t in tri for v in t))
            nedges = len(set(frozenset((t[i], t[j])) for t in tri for i, j in ((0, 1), (1, 2), (2, 0))))
            # SNC (n x RWG) is tangentially continuous only across consistently oriented elements: the two outer sheets
            for kind in ("P1", "RWG", "SNC") if segs == [1, 2] else ("P1", "RWG"):
                label = "%s on segments %s of two tetrahedra glued on a triangle (%s)" % (kind, segs, order_name)

                def dfail(aspect, detail, label=label, kind=kind):
                    chk.violation("%s:%s:junction" % (kind, aspect), "%s: %s" % (label, detail), {"grid": {"el": els, "dom": dom}, "segments": segs})

                try:
                    k_, deg = rs.KIND[kind]
                    spj = api.function_space(gt, k_, deg, segments=segs, include_boundary_dofs=True)
                    chk.count(label, True)
                    n_edges = rs.check_conformity(obt, gt, spj, dfail, kind)
                    # the selected sheets form a closed surface: one dof per vertex / edge of it
                    want = nverts if kind == "P1" else nedges
                    if spj.global_dof_count != want:
                        dfail("dof_count", "%d dofs, the closed surface of the two sheets has %d %s" % (spj.global_dof_count, want, "vertices" if kind == "P1" else "edges"))
                    rs.check_colouring(spj, dfail)
                except Exception as exc:
                    dfail("exception", "%s: %s" % (type(exc).__name__, str(exc)[:160]))
    # ---- directed: two disjoint closed components as domains 1 and 2, the normals of one whole component swapped (a connected closed grid
    # with only part of its normals swapped is rejected by the BC / RBC constructors): barycentric children carry the multiplier of their parent
    Vo = np.array([[1, 0, 0], [-1, 0, 0], [0, 2, 0], [0, -2, 0], [0, 0, 3], [0, 0, -3]], dtype=float).T
    Eo = np.array([[0, 2, 4], [0, 5, 2], [0, 4, 3], [0, 3, 5], [1, 4, 2], [1, 2, 5], [1, 3, 4], [1, 5, 3]]).T
    g2c = api.Grid(np.hstack([Vo, Vo + np.array([[7.0], [0.0], [0.0]])]), np.hstack([Eo, Eo + 6]).astype("uint32"), np.array([1] * 8 + [2] * 8, dtype="uint32"))
    for swapped in ([2], [1]):
        for kind in ("BC", "RBC"):
            label = "%s on two disjoint octahedra, swapped_normals=%s" % (kind, swapped)

            def cfail(aspect, detail, label=label, kind=kind):
                chk.violation("%s:%s:components" % (kind, aspect), "%s: %s" % (label, detail), {"swapped": swapped})

            try:
                spc = api.function_space(g2c, kind, 0, swapped_normals=swapped)
                chk.count(label, True)
                want = np.repeat(np.where(np.asarray(g2c.domain_indices) == swapped[0], -1, 1), 6)
                if not np.array_equal(np.asarray(spc.normal_multipliers), want):
                    cfail("normal_multipliers", "the barycentric children do not carry the normal multipliers of their parents")
                rd.check_bary_conformity(spc, cfail, label, kind)
            except Exception as exc:
                cfail("exception", "%s: %s" % (type(exc).__name__, str(exc)[:160]))
    chk.cov["rule"] = ("one obligation per terminal state of SpaceModel (mesh x selection x options x kind); RWG obligations are "
                       "replayed for RWG and SNC, P1/DP0/RWG selections also for DUAL0/DUAL1/BC/RBC; non-trivial = support of >= 2 elements")
    chk.cov["exhaustive"] = True
    chk.cov["conformity_edge_function_pairs"] = conf
    return chk.finish()


if __name__ == "__main__":
    common.main(body)

"""EXT-POOL (extension beyond the listed properties, DESIGN 10 / 12.7): bempp_cl.api.utils.pool against spec/Pool.tla.

TLC checks the pool protocol (one job and one result queue per worker, synchronous host) for result order, exactly-once
execution, bounded queues, absence of stuck states and termination, and must reject three as-written programs (a worker
function that raises: the host waits forever; fewer arguments than workers: the host waits forever; more arguments than
workers: arguments silently dropped).  Binding: a real pool of spawned worker processes runs a program of map / starmap /
execute calls with the host-side queue operations recorded; TLC validates the recorded trace against PoolTrace.tla
(worker steps inferred).  The shared buffer (to_buffer / from_buffer) is round-tripped through the workers.  The deadlock
TLC finds for a raising worker function is replayed on the real pool in a subprocess with a time limit.
Not a listed property: the result goes to /verif/evidence_ext/EXT-POOL.json.  Exit codes: 0 held, 1 violation, 2 machinery.
"""

import json
import os
import subprocess
import sys
import tempfile
import time

sys.path.insert(0, os.path.dirname(os.path.dirname(os.path.abspath(__file__))))
from harness import common  # noqa: E402

HANG_SCRIPT = r"""
import sys, os, time
sys.path.insert(0, %(verif)r)
from harness import common
if __name__ == "__main__":
    common.use_repo()
    from bempp_cl.api.utils import pool
    from harness import pool_jobs
    pool.create_pool(2)
    t0 = time.time()
    print("CONTROL", pool.map(pool_jobs.job_map, [(1, 0), (1, 1)]), flush=True)
    print("ROUND %%.2f" %% (time.time() - t0), flush=True)
    if sys.argv[1] == "fail":
        print("RESULT", pool.map(pool_jobs.job_fail, [(2, 0), (2, 1)]), flush=True)
    pool.shutdown()
    print("SHUTDOWN", flush=True)
"""


def main():
    t0 = time.time()
    tier = common.tier()
    common.use_repo()
    import numpy as np
    from bempp_cl.api.utils import pool
    from harness import pool_jobs as pj

    problems, notes, tlc_runs = [], [], []
    for cfg, expect in (("Pool.cfg", None), ("Pool_exception.cfg", "NoStuck"), ("Pool_short.cfg", "NoStuck"), ("Pool_long.cfg", "AllArgsUsed")):
        r = common.run_tlc("Pool", cfg, workers=4, timeout=900)
        tlc_runs.append({"cfg": cfg, "ok": r.ok, "violated": r.violated, "distinct": r.distinct, "expected_violation": expect})
        if expect is None and not r.ok:
            problems.append("TLC: Pool.cfg violates %s" % r.violated)
        if expect is not None and (r.ok or expect not in str(r.violated)):
            raise common.MachineryError("negative configuration %s: expected violation of %s, got %s" % (cfg, expect, r.violated))
    # ---- a real pool with recorded host-side queue operations
    NW = 3
    events = []
    pool.create_pool(NW)
    P = pool._POOL

    def wrap_put(q, w):
        orig = q.put

        def put(job):
            orig(job)
            events.append({"ev": "stop" if job is None else "put", "w": w})
        q.put = put

    def wrap_get(q, w):
        orig = q.get

        def get():
            res = orig()
            events.append({"ev": "get", "w": w, "res": res if isinstance(res, list) and len(res) == 3 and all(isinstance(x, int) for x in res) else [-2, -2, -2], "raw": repr(res)[:80]})
            return res
        q.get = get

    class Recording(object):
        """SimpleQueue has read-only attributes: a thin proxy with the same put / get."""
        def __init__(self, q):
            self._q = q
            self.put, self.get = q.put, q.get

    P._senders = [Recording(q) for q in P._senders]
    P._receivers = [Recording(q) for q in P._receivers]
    for w in range(NW):
        wrap_put(P._senders[w], w)
        wrap_get(P._receivers[w], w)
    ncalls = 0
    try:
        # calls whose results are <<worker, call, arg>> triples (validated by the trace specification)
        for kind in ("map", "starmap", "map", "starmap") if tier == "quick" else ("map", "starmap") * 4:
            ncalls += 1
            if kind == "map":
                res = pool.map(pj.job_map, [(ncalls, w) for w in range(NW)])
            else:
                res = pool.starmap(pj.job_star, [(ncalls, w) for w in range(NW)])
            if res != [[w, ncalls, w] for w in range(NW)]:
                problems.append("call %d (%s) returned %s" % (ncalls, kind, res))
        mark = len(events)
        # other entry points (not part of the validated trace: their results are not triples)
        r = pool.execute(pj.job_noargs)
        if r != [[w, NW, True] for w in range(NW)]:
            problems.append("execute(job_noargs) returned %s" % (r,))
        if pool.execute(pj.job_store, "k", 17) != [True] * NW or pool.execute(pj.job_load, "k") != [[w, True, 17] for w in range(NW)]:
            problems.append("insert_data / get_data through execute")
        pool.remove_key("k")
        if pool.execute(pj.job_load, "k") != [[w, False, None] for w in range(NW)]:
            problems.append("remove_key did not remove the key in every worker")
        if pool.number_of_workers() != NW or pool.nworkers() != NW or pool.is_worker() or not pool.is_initialised():
            problems.append("number_of_workers / nworkers / is_worker / is_initialised")
        # shared buffer: layouts with mixed item sizes (offsets are running sums of nbytes)
        rng = np.random.RandomState(0)
        layouts = [[("float64", (3, 2)), ("uint32", (5,)), ("complex128", (2, 2)), ("uint8", (3,)), ("float32", (1, 4))],
                   [("uint8", (1,)), ("float64", (2,)), ("int16", (3,)), ("complex64", (2,))]]
        for lay in layouts:
            arrs = [(rng.randint(0, 50, size=sh) + (1j * rng.randint(0, 50, size=sh) if dt.startswith("complex") else 0)).astype(dt) for dt, sh in lay]
            desc = pool.to_buffer(*arrs)
            back = pool.from_buffer(desc)
            off = 0
            for a, b_, (dt, sh) in zip(arrs, back, lay):
                if b_.dtype != a.dtype or b_.shape != a.shape or not np.array_equal(a, b_):
                    problems.append("from_buffer(to_buffer(x)) differs for %s %s" % (dt, sh))
                got_off = b_.__array_interface__["data"][0] - np.frombuffer(pool._BUFFER, dtype="uint8").__array_interface__["data"][0]
                if got_off != off:
                    problems.append("array %s %s placed at offset %d, expected %d" % (dt, sh, got_off, off))
                off += a.nbytes
            want = [[str(a.dtype), list(a.shape), complex(np.sum(a * np.arange(1, a.size + 1).reshape(a.shape))).real, complex(np.sum(a * np.arange(1, a.size + 1).reshape(a.shape))).imag] for a in arrs]
            got = pool.execute(pj.job_read_buffer, desc)
            if got != [[w] + want for w in range(NW)]:
                problems.append("workers read other data from the shared buffer than the host wrote")
        other = events[mark:]
        del events[mark:]
        workers = list(P._workers)
        pool.shutdown()
        for w, proc in enumerate(workers):
            events.append({"ev": "join", "w": w, "alive": proc.is_alive()})
            if proc.is_alive():
                problems.append("worker %d alive after shutdown" % w)
    except Exception as exc:
        problems.append("pool program failed: %s: %s" % (type(exc).__name__, str(exc)[:200]))
        try:
            pool.shutdown()
        except Exception:
            pass
    # ---- trace validation (the stop events come after the other entry points; those are removed from the validated trace)
    d = tempfile.mkdtemp(prefix="ext_pool_")
    verdict = None
    try:
        tf = os.path.join(d, "trace.json")
        with open(tf, "w") as f:
            json.dump({"nworkers": NW, "ncalls": ncalls, "events": [{k: e[k] for k in e if k in ("ev", "w", "res")} for e in events]}, f)
        r = common.run_tlc("PoolTrace", "PoolTrace.cfg", workers=1, timeout=1200, env={"TRACE_FILE": tf})
        tlc_runs.append({"cfg": "PoolTrace.cfg", "ok": r.ok, "violated": r.violated, "distinct": r.distinct, "events": len(events)})
        vs = [json.loads(b) for k, b in r.printed if k == "TRC"]
        if not vs:
            raise common.MachineryError("no verdict from PoolTrace")
        verdict = vs[0]
        if not r.ok:
            problems.append("PoolTrace: invariant %s violated by the recorded trace" % r.violated)
        if verdict["verdict"] != "accept":
            problems.append("recorded trace rejected: %s; next events %s" % (verdict["verdict"], events[max(0, verdict["at"] - 2): verdict["at"] + 1]))
        # negative control of the binding: corrupt one recorded result -> must be rejected
        bad = [dict(e) for e in events]
        k = [i for i, e in enumerate(bad) if e["ev"] == "get"][NW + 1]
        bad[k]["res"] = [bad[k]["res"][0], bad[k]["res"][1] - 1, bad[k]["res"][2]]        # a result of the previous call
        with open(tf, "w") as f:
            json.dump({"nworkers": NW, "ncalls": ncalls, "events": [{kk: e[kk] for kk in e if kk in ("ev", "w", "res")} for e in bad]}, f)
        r2 = common.run_tlc("PoolTrace", "PoolTrace.cfg", workers=1, timeout=1200, env={"TRACE_FILE": tf})
        v2 = [json.loads(b) for kk, b in r2.printed if kk == "TRC"]
        if not v2 or v2[0]["verdict"] == "accept":
            raise common.MachineryError("corrupted trace (stale result) was accepted: the binding does not constrain results")
        # ---- replay of TLC's counterexample (worker function raises) on the real pool
        script = os.path.join(d, "hang.py")
        with open(script, "w") as f:
            f.write(HANG_SCRIPT % {"verif": common.VERIF})
        env = dict(os.environ, VERIF_REPO=common.REPO)
        tc = time.time()
        c = subprocess.run([sys.executable, script, "ok"], capture_output=True, text=True, timeout=900, env=env, cwd=d)
        control = time.time() - tc
        if "SHUTDOWN" not in c.stdout:
            raise common.MachineryError("control run of the hang replay did not finish: %s" % c.stderr[-300:])
        limit = 3 * control + 30
        try:
            c2 = subprocess.run([sys.executable, script, "fail"], capture_output=True, text=True, timeout=limit, env=env, cwd=d)
            hung = False
            out2 = c2.stdout
        except subprocess.TimeoutExpired as te:
            hung = True
            out2 = (te.stdout or b"").decode() if isinstance(te.stdout, bytes) else (te.stdout or "")
        subprocess.run(["pkill", "-f", script], capture_output=True)
        if hung and "CONTROL" in out2 and "RESULT" not in out2:
            notes.append("a worker function that raises leaves the host blocked in receivers[w].get() for ever (TLC: Pool_exception.cfg violates NoStuck); "
                         "replayed on the real pool: no result after %.0f s (control run: %.0f s)" % (limit, control))
        elif not hung:
            notes.append("the raising worker function did not block the host on the real pool (output: %s)" % out2[-200:])
    finally:
        import shutil

        shutil.rmtree(d, ignore_errors=True)
    out = {"id": "EXT-POOL", "tier": tier, "tlc_runs": tlc_runs, "events_recorded": len(events), "other_entry_point_events": len(other) if "other" in dir() else 0,
           "verdict": verdict, "problems": problems[:20], "notes": notes, "wall_s": round(time.time() - t0, 1),
           "what": "protocol of the process pool model-checked (with three as-written negative programs), host-side trace of a real 3-worker pool validated, shared buffer round trip, deadlock counterexample replayed"}
    dd = os.path.join(os.environ["VERIF_EVIDENCE_DIR"], "ext") if os.environ.get("VERIF_EVIDENCE_DIR") else os.path.join(common.VERIF, "evidence_ext")
    os.makedirs(dd, exist_ok=True)
    with open(os.path.join(dd, "EXT-POOL.json"), "w") as f:
        json.dump(out, f, indent=1)
    for nt in notes:
        print("NOTE (extension, not a listed property): " + nt)
    if problems:
        for p_ in problems[:5]:
            print("EXT-VIOLATION id=EXT-POOL " + p_)
        return 1
    print("OK id=EXT-POOL tier=%s events=%d wall=%.1fs" % (tier, len(events), time.time() - t0))
    return 0


if __name__ == "__main__":
    common.main(main)

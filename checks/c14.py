"""C14 Operator, grid-function and potential algebra is coherent.

TLC enumerates every expression tree of bounded depth of spec/OpAlgebra.tla (boundary operators, blocked operators,
grid functions, lists of grid functions, potential operators, scalars of several Python types) with its type (or
"ill") and its denotation; each tree is built from real objects with the Python operators.
"""

import os
import sys

sys.path.insert(0, os.path.dirname(os.path.dirname(os.path.abspath(__file__))))
from harness import common  # noqa: E402

PID = "C14"
CFG = """SPECIFICATION Spec
CONSTANTS
  MaxDepth = %d
  EmitJson = TRUE
INVARIANT Closed
PROPERTY IllIsLeaf
INVARIANT Emit
CHECK_DEADLOCK FALSE
"""


def show(t):
    k = t["k"]
    if k == "atom":
        return t["id"]
    if k == "neg":
        return "-(%s)" % show(t["x"])
    if k == "scale":
        return "%s*(%s)" % (t["a"], show(t["x"]))
    if k == "rscale":
        return "(%s)*%s" % (show(t["x"]), t["a"])
    if k == "div":
        return "(%s)/%s" % (show(t["x"]), t["a"])
    return "(%s %s %s)" % (show(t["l"]), {"sum": "+", "diff": "-", "prod": "*"}[k], show(t["r"]))


def shape_of(t):
    """class of a tree for violation keys: operator symbols with atom kinds."""
    k = t["k"]
    if k == "atom":
        return t["kind"]
    if k in ("neg", "scale", "rscale", "div"):
        return "%s(%s)" % (k, shape_of(t["x"]))
    return "%s(%s,%s)" % (k, shape_of(t["l"]), shape_of(t["r"]))


def body():
    chk = common.Check(PID, "model_checking")
    api = common.use_repo()
    import numpy as np
    from harness import replay_algebra as ra

    chk.assume(
        "atoms' weak forms (to_dense of assembled operators), coefficient vectors and potential atoms are the ground terms; the specification "
        "decides typing and which linear-algebra expression a tree denotes",
        "binary nodes have an atom on one side (depth-bounded grammar); ill-typed trees are leaves",
        "reject = any exception before numbers are produced, or a result from which no numbers can be obtained (e.g. NotImplemented)",
        "for a rectangular mass matrix (range and dual of different dimension) Minv is the pseudo-inverse, which is what the library's solver computes",
    )
    depth = 2 if chk.tier == "quick" else 3
    tmpcfg = os.path.join(common.SPEC, "_c14_%d.cfg" % os.getpid())
    with open(tmpcfg, "w") as f:
        f.write(CFG % depth)
    try:
        res = common.run_tlc("OpAlgebra", os.path.basename(tmpcfg), timeout=3300, heap="12g")
    finally:
        os.remove(tmpcfg)
    chk.add_tlc("OpAlgebra depth %d" % depth, res)
    if not res.ok:
        chk.violation("spec:" + str(res.violated), "TLC: OpAlgebra violates %s" % res.violated, {"trace": res.trace[-1:]})
        return chk.finish()
    chk.require_coverage(res, ["Next"])
    pool = ra.Pool(api)
    obs = res.obligations
    if chk.tier == "thorough" and len(obs) > 150000:
        # depth 3 is large: every accepted tree, a seeded sample of the rejected ones
        rng = np.random.RandomState(chk.seed)
        rej = [o for o in obs if o["verdict"] == "reject"]
        keep = set(rng.choice(len(rej), 60000, replace=False).tolist())
        obs = [o for o in obs if o["verdict"] == "accept"] + [o for i, o in enumerate(rej) if i in keep]
    counts = {"accept": 0, "reject": 0}
    import warnings

    warnings.simplefilter("ignore")
    TOL0 = ra.TOL
    for n, ob in enumerate(obs):
        t = ob["term"]
        label = show(t)
        # terms that contain the single-precision atom are compared to single-precision accuracy
        ra.TOL = 2e-5 if "S11" in label else TOL0
        shp = shape_of(t)
        counts[ob["verdict"]] += 1
        chk.count(label, ob["depth"] >= 1)
        chk.cov["obligations_replayed"] += 1
        if ob["verdict"] == "reject":
            try:
                obj = pool.build(t)
                nums = pool.any_numbers(obj)
            except Exception:
                continue
            chk.violation("illtyped:%s" % shp, "ill-typed combination %s is not rejected: it produced %s" % (label, [np.asarray(x).shape for x in nums][:3]), {"term": t})
            continue
        kind = ob["type"]["kind"]
        try:
            obj = pool.build(t)
            want = None
            if kind == "pot":
                # a potential operator is observed through its action on the grid functions of its space
                for f, c in ((f_, c_) for f_, c_ in pool.c.items() if f_ in pool.gf):
                    if pool.gfsp[f] == ob["type"]["sp"]:
                        got = np.asarray(obj.evaluate(pool.gf[f]))
                        want = pool.evalpot(ob["den"], c)
                        if not ra.close(got, want):
                            chk.violation("denotation:%s" % shp, "%s evaluated on %s deviates by %.3g from its denotation" % (label, f, np.abs(got - want).max()), {"term": t})
                            break
                # derived attributes must be consistent with the atoms
                try:
                    pts = obj.evaluation_points
                    if not np.array_equal(pts, pool.pts) or obj.component_count != 1 or obj.space != pool.sp[ob["type"]["sp"]]:
                        chk.violation("attributes:%s" % shp, "%s: evaluation_points / component_count / space disagree with its operands" % label, {"term": t})
                except Exception as exc:
                    chk.violation("attributes:%s" % shp, "%s: evaluation_points / space raise %s: %s" % (label, type(exc).__name__, exc), {"term": t})
                continue
            got = pool.numbers(obj, kind)
            want = pool.den(ob["den"])
            if not ra.close(got, want):
                chk.violation("denotation:%s" % shp, "%s deviates from its denotation by %.3g (shapes %s / %s)" % (
                    label, np.abs(np.asarray(got) - want).max() if np.asarray(got).shape == want.shape else float("nan"), np.asarray(got).shape, want.shape), {"term": t, "den": ob["den"]})
                continue
            # type: spaces of the result
            ty = ob["type"]
            if kind == "bo":
                if obj.domain != pool.sp[ty["dom"]] or obj.range != pool.sp[ty["ran"]] or obj.dual_to_range != pool.sp[ty["dua"]]:
                    chk.violation("type:%s" % shp, "%s: domain/range/dual spaces differ from the typed ones" % label, {"term": t})
                W = obj.weak_form()
                D = np.asarray(W.to_dense())
                v = pool.c["f1" if ty["dom"] == 1 else ("f2" if ty["dom"] == 2 else "f3")]
                vc = v + 1j * v[::-1]
                I = np.eye(D.shape[1])
                if W.shape != D.shape or not ra.close(W @ I, D) or not ra.close(W @ v, D.dot(v)) or not ra.close(W @ vc, D.dot(vc)) or not ra.close(W.dot(np.array([v, 2 * v]).T), D.dot(np.array([v, 2 * v]).T)):
                    chk.violation("discrete:%s" % shp, "weak form of %s: to_dense disagrees with matvec/matmat (real or complex vector)" % label, {"term": t})
                if np.iscomplexobj(D) != np.issubdtype(W.dtype, np.complexfloating):
                    chk.violation("discrete:dtype:%s" % shp, "weak form of %s: dtype %s but dense matrix is %s" % (label, W.dtype, D.dtype), {"term": t})
                S = np.asarray(obj.strong_form().to_dense())
                if not ra.close(S, pool.minv(ty["ran"], ty["dua"]).dot(D)):
                    chk.violation("strong_form:%s" % shp, "strong form of %s is not Minv(range, dual) . weak form" % label, {"term": t})
                for name, ref in (("transpose", D.T), ("adjoint", D.conj().T)):
                    try:
                        Tm = getattr(W, name)()
                        u = pool.c["f1"] if D.shape[0] == 8 else (pool.c["f2"] if D.shape[0] == 12 else pool.c["f3"])
                        if not ra.close(Tm @ u, ref.dot(u)):
                            chk.violation("discrete:%s:%s" % (name, shp), "%s of the weak form of %s acts differently from the dense %s" % (name, label, name), {"term": t})
                    except NotImplementedError:
                        chk.part("unsupported", **{name: 1})
            elif kind == "gf":
                if obj.space != pool.sp[ty["sp"]]:
                    chk.violation("type:%s" % shp, "%s: result lives in another space" % label, {"term": t})
            elif kind == "blk":
                W = obj.weak_form()
                x = np.arange(1.0, W.shape[1] + 1)
                if not ra.close(W @ x, want.dot(x)) or not ra.close(W @ (x * (1 + 2j)), want.dot(x * (1 + 2j))):
                    chk.violation("discrete:%s" % shp, "blocked weak form of %s: matvec disagrees with to_dense" % label, {"term": t})
                X2 = np.array([x, x[::-1] * (1 - 1j)]).T
                try:
                    bad = not ra.close(W @ X2, want.dot(X2)) or not ra.close(W @ x.reshape(-1, 1), want.dot(x.reshape(-1, 1))) or not ra.close(W.matmat(X2.real), want.dot(X2.real))
                    Sd = np.asarray(obj.strong_form().to_dense())
                    bad_s = not ra.close(obj.strong_form() @ X2, Sd.dot(X2)) or not ra.close(obj.strong_form() @ x, Sd.dot(x))
                except Exception as exc:
                    bad, bad_s = "%s: %s" % (type(exc).__name__, str(exc)[:120]), False
                if bad:
                    chk.violation("discrete:matmat:%s" % shp, "blocked weak form of %s applied to a 2-D array disagrees with to_dense%s" % (label, "" if bad is True else " (" + bad + ")"), {"term": t})
                if bad_s:
                    chk.violation("discrete:strong:%s" % shp, "blocked strong form of %s: matvec/matmat disagree with its to_dense" % label, {"term": t})
                if [s for s in obj.domain_spaces] != [pool.sp[i] for i in ty["doms"]] or [s for s in obj.range_spaces] != [pool.sp[i] for i in ty["rans"]]:
                    chk.violation("type:%s" % shp, "%s: block spaces differ from the typed ones" % label, {"term": t})
            elif kind == "gfl":
                if [f.space for f in obj] != [pool.sp[i] for i in ty["sps"]]:
                    chk.violation("type:%s" % shp, "%s: result functions live in other spaces" % label, {"term": t})
        except Exception as exc:
            chk.violation("accept:%s" % shp, "documented combination %s fails with %s: %s" % (label, type(exc).__name__, str(exc)[:200]), {"term": t})
        if n % 4001 == 0:
            chk.sample({"term": label, "verdict": ob["verdict"], "type": ob["type"], "den": ob["den"]})
    ra.TOL = TOL0
    # ---- life cycle of grid functions (GfLife.tla): representation changes and what each call returns, over call sequences
    gl = common.run_tlc("GfLife", "GfLife.cfg", timeout=1800)
    chk.add_tlc("GfLife exhaustive (depth 3, 3 slots)", gl)
    if not gl.ok:
        chk.violation("spec:GfLife:" + str(gl.violated), "TLC: GfLife violates %s" % gl.violated, {})
    sim = common.run_tlc("GfLife", "GfLife_sim.cfg", simulate="num=%d" % (40 if chk.tier == "quick" else 600), depth=11, workers=1, extra=["-seed", str(7 + chk.seed)], timeout=1800)
    from harness import replay_gflife as rgl

    world = rgl.World(api)
    seen_h = set()
    nb = 0
    for o in sim.obligations:
        h = o["hist"]
        key = repr([(e["call"], e["args"]) for e in h])
        if key in seen_h:
            continue
        seen_h.add(key)
        nb += 1
        chk.count(("gflife", key), True)
        chk.cov["obligations_replayed"] += 1

        def gfail(step, call, detail, h=h):
            calls = [(e["call"], e["args"]) for e in h[: step + 1]]
            chk.violation("gflife:%s" % call, "grid-function life cycle: step %d (%s): %s; calls so far %s" % (step + 1, call, detail, calls), {"history": h})

        try:
            world.run(h, gfail)
        except Exception as exc:
            chk.violation("gflife:exception", "%s: %s while executing %s" % (type(exc).__name__, str(exc)[:160], [(e["call"], e["args"]) for e in h]), {"history": h})
    chk.cov["tlc_runs"].append({"name": "GfLife simulation", "cmd": sim.cmd, "behaviours": len(sim.obligations), "distinct_replayed": nb, "wall_s": round(sim.wall, 1)})
    if nb == 0:
        raise common.MachineryError("no GfLife behaviour was generated")
    chk.cov["rule"] = "one obligation per expression tree (state of OpAlgebra); distinct by printed term; non-trivial = depth >= 1"
    chk.cov["verdicts"] = counts
    chk.cov["exhaustive"] = chk.tier == "quick"
    return chk.finish()


if __name__ == "__main__":
    common.main(body)

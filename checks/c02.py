"""C02 Laplace potential operators reproduce Green's representation formula.

Spec: PotentialModel.tla (cell-centre points of polycube solids with the exact interior/exterior predicate, the distance
premise Far, and the exact potentials of the polynomial probe kernels at those points) on top of Polycube/GalerkinExact.
Binding: probe kernels are installed in the Laplace kernel slots and the public potential operators are compared with the
exact values (whole-grid spaces, spaces assembled from segment-wise pieces, swapped normals); the representation value
V[a.n](x) - K[u](x) is evaluated with the real kernels at regular order >= 8 against the property's 1e-6.
"""

import os
import sys

sys.path.insert(0, os.path.dirname(os.path.dirname(os.path.abspath(__file__))))
from harness import common  # noqa: E402

PID = "C02"
CFG = """SPECIFICATION Spec
CONSTANTS
  Solids <- %s
  Reach = 3
  EmitJson = TRUE
INVARIANT PointOffSurface
INVARIANT Emit
CHECK_DEADLOCK FALSE
"""


def body():
    chk = common.Check(PID, "model_checking")
    api = common.use_repo()
    import numpy as np
    from harness import probes

    chk.assume(
        "Green's representation formula for affine u on a closed outward oriented surface is an axiom; the premises (closed, oriented) are proved by "
        "TLC for every polycube in GalerkinModel, Inside and Far are decided exactly by PotentialModel",
        "exact probe potentials: J_e * PotR2 / 480 and PotDl / 240 with TLC's integers",
        "representation value judged against the property's 1e-6 (relative to the largest |u| on the surface) at regular orders 8 and 12",
    )
    quick = chk.tier == "quick"
    tmpcfg = os.path.join(common.SPEC, "_c02_%d.cfg" % os.getpid())
    with open(tmpcfg, "w") as f:
        f.write(CFG % ("SolidsQuick" if quick else "SolidsThorough"))
    try:
        res = common.run_tlc("PotentialModel", os.path.basename(tmpcfg), timeout=3300)
    finally:
        os.remove(tmpcfg)
    chk.add_tlc("PotentialModel", res)
    if not res.ok:
        chk.violation("spec:" + str(res.violated), "TLC: PotentialModel violates %s" % res.violated, {})
        return chk.finish()
    chk.require_coverage(res, ["Next"])
    by_solid = {}
    for ob in res.obligations:
        by_solid.setdefault(repr(ob["cells"]), []).append(ob)
    par = api.GLOBAL_PARAMETERS
    pot = api.operators.potential.laplace
    rng = np.random.RandomState(chk.seed)
    worst = 0.0
    for key, obs in by_solid.items():
        xyz = np.array(obs[0]["xyz"], dtype=float)
        el = np.array(obs[0]["el"]) - 1
        ne = len(el)
        label = "solid of %d cells, %d elements" % (len(obs[0]["cells"]), ne)
        dom = np.array([(int(xyz[el[e]].sum()) % 3) * 4 for e in range(ne)], dtype="uint32")   # three interleaved segments 0, 4, 8
        g = api.Grid(xyz.T.copy(), el.T.astype("uint32"), dom)
        X = np.array([ob["x2"] for ob in obs], dtype=float).T / 2.0
        inside = np.array([ob["inside"] for ob in obs])
        J = g.integration_elements

        def fail(k, detail, extra=None, obs=obs, label=label):
            chk.violation(k, "%s on %s" % (detail, label), {"cells": obs[0]["cells"], "extra": extra})

        try:
            P1 = api.function_space(g, "P", 1)
            D0 = api.function_space(g, "DP", 0)
            D1 = api.function_space(g, "DP", 1)
            # ---- exact probe potentials through the public API
            R2 = np.array([ob["r2"] for ob in obs], dtype=float)     # point x element x local
            DL = np.array([ob["dl"] for ob in obs], dtype=float)
            ex_r2 = R2 * J[None, :, None] / 480.0
            ex_dl = DL / 240.0
            for order in (4, 9) if quick else (2, 4, 7, 12):
                par.quadrature.regular = order
                with probes.installed("r2", "dl"):
                    for kind, sp in (("DP1", D1), ("P1", P1), ("DP0", D0)):
                        if order < 3 and kind != "DP0":
                            continue          # |x-y|^2 times a linear basis function has degree 3: exact from order 3 on
                        c = rng.randint(-3, 4, sp.global_dof_count).astype(float)
                        loc = np.asarray(sp.map_to_full_grid.dot(c)).reshape(ne, -1)     # element x local coefficients
                        if kind == "DP0":
                            loc = np.repeat(loc, 3, axis=1)                              # constant = sum of the three hat functions
                        f = api.GridFunction(sp, coefficients=c)
                        for name, fac, ex in (("single_layer", pot.single_layer, ex_r2), ("double_layer", pot.double_layer, ex_dl)):
                            got = np.asarray(fac(sp, X).evaluate(f)).ravel()
                            want = (ex * loc[None, :, :]).sum(axis=(1, 2))
                            chk.count((key, kind, name, order), True)
                            chk.cov["obligations_replayed"] += len(obs)
                            e_ = np.abs(got - want).max() / max(1e-9, np.abs(want).max())
                            if not (e_ <= 1e-10):   # NaN counts as a deviation
                                fail("probe_potential:%s:%s" % (name, kind), "probe potential through potential.laplace.%s (%s, order %d) deviates from the exact values by %.3g" % (name, kind, order, e_))
                    # spaces assembled from segment-wise pieces, one of them seen with swapped normals
                    segs = sorted(set(dom.tolist()))
                    c1 = rng.randint(-3, 4, D1.global_dof_count).astype(float)
                    full_dl = np.asarray(pot.double_layer(D1, X).evaluate(api.GridFunction(D1, coefficients=c1))).ravel()
                    pieces = np.zeros_like(full_dl)
                    for s in segs:
                        swap = [s] if s == segs[-1] else []
                        ds = api.function_space(g, "DP", 1, segments=[s], swapped_normals=swap)
                        cs = c1.reshape(ne, 3)[ds.support].ravel()
                        val = np.asarray(pot.double_layer(ds, X).evaluate(api.GridFunction(ds, coefficients=cs))).ravel()
                        pieces += -val if swap else val
                    chk.count((key, "segments", order), True)
                    if not (np.abs(pieces - full_dl).max() <= 1e-10 * max(1e-9, np.abs(full_dl).max())):   # NaN counts as a deviation
                        fail("segments:double_layer", "double-layer probe potential assembled from segment-wise pieces (one with swapped normals) differs from the whole-grid one by %.3g (order %d)" % (
                            np.abs(pieces - full_dl).max() / np.abs(full_dl).max(), order))
            # ---- the representation formula with the real kernels
            el_all = g.elements.T
            vert = np.zeros(P1.global_dof_count, dtype=int)
            for e in range(ne):
                for i in range(3):
                    vert[P1.local2global[e, i]] = el_all[e, i]
            for (a, b0) in [((1.0, 0.0, 0.0), 0.0), ((0.5, -2.0, 1.0), 0.7)] + ([] if quick else [((0.0, 0.0, 1.0), -1.0), ((1.0, 1.0, 1.0), 0.0)]):
                a = np.asarray(a)
                gcoef = g.vertices[:, vert].T.dot(a) + b0
                psi = g.normals.dot(a)
                umax = np.abs(g.vertices.T.dot(a) + b0).max()
                for order in (8, 10, 12) if quick else (8, 9, 10, 11, 12):
                    par.quadrature.regular = order
                    val = (pot.single_layer(D0, X).evaluate(api.GridFunction(D0, coefficients=psi)) - pot.double_layer(P1, X).evaluate(api.GridFunction(P1, coefficients=gcoef))).ravel()
                    want = np.where(inside, X.T.dot(a) + b0, 0.0)
                    err = np.abs(val - want).max() / umax
                    worst = max(worst, float(err))
                    chk.count((key, "representation", tuple(a), order), True)
                    if not (err <= 1e-6):   # NaN counts as a deviation
                        k_ = int(np.argmax(np.abs(val - want)))
                        fail("representation", "V[a.n](x) - K[u](x) is off by %.3g (relative) at x = %s (%s) for u = %s.x + %s at regular order %d" % (
                            err, X[:, k_].tolist(), "inside" if inside[k_] else "outside", a.tolist(), b0, order))
                # segment-wise pieces of P1 with boundary dofs sum to the whole function
                par.quadrature.regular = 8
                whole = pot.double_layer(P1, X).evaluate(api.GridFunction(P1, coefficients=gcoef)).ravel()
                acc = np.zeros_like(whole)
                for s in sorted(set(dom.tolist())):
                    ps = api.function_space(g, "P", 1, segments=[s], include_boundary_dofs=True, truncate_at_segment_edge=True)
                    vs = np.zeros(ps.global_dof_count, dtype=int)
                    for e in np.flatnonzero(ps.support):
                        for i in range(3):
                            if ps.local_multipliers[e, i] != 0:
                                vs[ps.local2global[e, i]] = el_all[e, i]
                    acc += pot.double_layer(ps, X).evaluate(api.GridFunction(ps, coefficients=g.vertices[:, vs].T.dot(a) + b0)).ravel()
                if not (np.abs(acc - whole).max() <= 1e-10 * max(1e-9, np.abs(whole).max())):   # NaN counts as a deviation
                    fail("segments:p1", "double-layer potential of u assembled from truncated segment-wise P1 pieces differs from the whole-grid one by %.3g" % (np.abs(acc - whole).max() / np.abs(whole).max()))
            # ---- the same surface stretched by (1,2,3): elements of different sizes; potentials of segment-wise pieces (segments that do not
            # start at element 0) must add up to the whole-grid potential, for the real kernels (exact relation, no premise on the points)
            S3 = np.array([1.0, 2.0, 3.0])
            gS = api.Grid((xyz * S3).T.copy(), el.T.astype("uint32"), dom)
            XS = X * S3[:, None]
            par.quadrature.regular = 4
            D0s, D1s = api.function_space(gS, "DP", 0), api.function_space(gS, "DP", 1)
            for kind, sp_, nloc in (("DP0", D0s, 1), ("DP1", D1s, 3)):
                c = rng.randint(-3, 4, sp_.global_dof_count).astype(float)
                for name, fac in (("single_layer", pot.single_layer), ("double_layer", pot.double_layer)):
                    whole = np.asarray(fac(sp_, XS).evaluate(api.GridFunction(sp_, coefficients=c))).ravel()
                    acc = np.zeros_like(whole)
                    for s_ in sorted(set(dom.tolist())):
                        ps = api.function_space(gS, "DP", 0 if kind == "DP0" else 1, segments=[s_])
                        cs = c.reshape(ne, nloc)[ps.support].ravel()
                        acc += np.asarray(fac(ps, XS).evaluate(api.GridFunction(ps, coefficients=cs))).ravel()
                    chk.count((key, "stretched_segments", kind, name), True)
                    if not (np.abs(acc - whole).max() <= 1e-10 * max(1e-9, np.abs(whole).max())):   # NaN counts as a deviation
                        fail("segments:stretched:%s" % name, "%s potential of a %s density on the surface stretched by (1,2,3): segment-wise pieces add up to something that differs from the whole-grid potential by %.3g" % (
                            name, kind, np.abs(acc - whole).max() / np.abs(whole).max()))
            chk.sample({"solid": obs[0]["cells"][:4], "points": len(obs), "inside_points": int(inside.sum()), "first_point": obs[0]["x2"]})
        except Exception as exc:
            import traceback
            fail("exception", "%s: %s | %s" % (type(exc).__name__, exc, traceback.format_exc()[-300:].replace("\n", " | ")))
        finally:
            par.quadrature.regular = 4
    chk.cov["worst_representation_error"] = worst
    chk.cov["rule"] = "one obligation per (solid, point) state of PotentialModel, replayed for each (space kind, potential, order); representation formula for each affine function and order"
    return chk.finish()


if __name__ == "__main__":
    common.main(body)

"""C10 Barycentric and dual-grid spaces represent the functions they claim to.

TLC (spec/BaryModel.tla) derives, from the geometry of the barycentric refinement, the exact nodal values of
the local P1 functions, of the DUAL1 functions and the cells of the DUAL0 functions at every node (vertex, edge
midpoint, barycentre) of every element of the universe.  The harness evaluates the barycentric representations
and dual spaces of the library at the corners of every barycentric element, locating them geometrically.
"""

import os
import sys

sys.path.insert(0, os.path.dirname(os.path.dirname(os.path.abspath(__file__))))
from harness import common  # noqa: E402

PID = "C10"
CFG = """SPECIFICATION Spec
CONSTANTS
  Bases = {%(bases)s}
  MaxDrop = %(drop)d
  Rot = %(rot)d
  EmitJson = TRUE
INVARIANT TablesSane
INVARIANT Emit
CHECK_DEADLOCK FALSE
"""
TOL = 1e-10
CORNERS = [[0.0, 1.0, 0.0, 1 / 3.0], [0.0, 0.0, 1.0, 1 / 3.0]]


def bary_obligations(chk, tag, bases, drop, rot):
    from harness import replay_bary as rb

    tmpcfg = os.path.join(common.SPEC, "_%s_%d.cfg" % (tag, os.getpid()))
    with open(tmpcfg, "w") as f:
        f.write(CFG % dict(bases=", ".join('"%s"' % b for b in bases), drop=drop, rot=rot))
    try:
        res = common.run_tlc("BaryModel", os.path.basename(tmpcfg), timeout=3000)
    finally:
        os.remove(tmpcfg)
    chk.add_tlc("BaryModel %s drop=%d rot=%d" % (bases, drop, rot), res)
    if not res.ok:
        chk.violation("spec:" + str(res.violated), "TLC: BaryModel violates %s" % res.violated, {"trace": res.trace[-1:]})
        return []
    chk.require_coverage(res, ["Next"])
    return rb.collect(res.obligations)


def body():
    chk = common.Check(PID, "model_checking")
    api = common.use_repo()
    import numpy as np
    from harness import replay_bary as rb, replay_dual as rd

    chk.assume(
        "nodal tables come from BaryModel.tla (geometry of the barycentric refinement), never from the library's coefficient tables",
        "RWG/SNC barycentric representations are checked as a relation (original function == barycentric function at the corners and "
        "centroid of every sub-triangle; both are linear there), not against an independent table",
        "mixed mass matrices are compared with D_dual^T M_loc D_primal where M_loc is the identity between the element-wise spaces on the "
        "barycentric grid (exact by C13) and D = map_to_full_grid . dof_transformation of the barycentric spaces",
        "DUAL0 / DUAL1 exact tables are replayed on whole grids (default options); segments are covered by the relation clauses and by C09",
    )
    quick = chk.tier == "quick"
    meshes = bary_obligations(chk, "c10", ["OCT", "TET", "STRIP8", "STRIPW"], 1 if quick else 2, 1)
    if quick:
        meshes = [m for k, m in enumerate(meshes) if len(m.h["sub"]) in (4, 8) or k % 3 == 0]
    else:
        meshes += bary_obligations(chk, "c10b", ["CUBE12", "BOW", "DISJ"], 1, 2)
    rng = np.random.RandomState(chk.seed)
    pts = np.array(CORNERS)
    sparse = api.operators.boundary.sparse
    for mi, m in enumerate(meshes):
        label = "%s/%s" % (m.h["base"], "".join(map(str, m.h["sub"])))

        def fail(key, detail, extra=None, m=m, label=label):
            chk.violation(key, "%s on %s" % (detail, label), {"mesh": {k: m.h[k] for k in ("base", "sub", "xyz", "el")}, "extra": extra})

        try:
            dom = np.array([(s % 3) * 5 for s in m.h["sub"]], dtype="uint32")
            g = m.grid(api, dom)
            bg = g.barycentric_refinement
            lay = rb.bary_layout(m, bg)
            if lay is None or any(p is None for p, _ in lay):
                fail("layout", "barycentric grid has elements that are not barycentric children of a coarse element")
                continue
            # ---- (a) original function == barycentric representation, pointwise on every sub-triangle
            variants = [("all", {})]
            segs = sorted(set(dom.tolist()))
            if len(segs) > 1:
                variants.append(("seg%d" % segs[-1], {"segments": [int(segs[-1])]}))
            if m.n >= 3:
                variants.append(("sup", {"support_elements": np.array([m.n - 2, m.n - 1], dtype="uint32")}))
            for vname, kw in variants:
                for kind, (k, deg) in (("DP0", ("DP", 0)), ("P1", ("P", 1)), ("RWG", ("RWG", 0)), ("SNC", ("SNC", 0))):
                    kw2 = dict(kw)
                    if kind != "DP0":
                        kw2["include_boundary_dofs"] = True
                    sp = api.function_space(g, k, deg, **kw2)
                    bsp = sp.barycentric_representation()
                    if sp.global_dof_count == 0:
                        continue
                    D = bsp.dof_transformation.tocsr()
                    if D.shape[1] != sp.global_dof_count:
                        fail("bary:%s:shape" % kind, "dof_transformation of the barycentric representation has %d columns for %d dofs (%s)" % (D.shape[1], sp.global_dof_count, vname))
                        continue
                    c = rng.randint(-4, 5, sp.global_dof_count).astype(float)
                    worst = 0.0
                    where = None
                    for b, (parents, corners) in enumerate(lay):
                        e = b // 6
                        if e not in parents:
                            fail("bary:numbering", "barycentric element %d is not a child of coarse element %d" % (b, e))
                            break
                        if not sp.support[e]:
                            if bsp.support[b]:
                                fail("bary:%s:support" % kind, "barycentric element %d lies in the support but its parent %d does not (%s)" % (b, e, vname))
                                break
                            continue
                        fb = rb.bary_function(bsp, b, pts, c, D)
                        nodes = corners + [tuple(np.mean(np.array(corners), axis=0))]
                        for q, node in enumerate(nodes):
                            xi = rb.coarse_local(m, e, node)
                            fo = rb.coarse_values(sp, e, xi, c)
                            d = float(np.abs(np.asarray(fo) - fb[:, q]).max())
                            if not (d <= worst):   # NaN counts as a deviation
                                worst, where = d, (b, q)
                    chk.count((m.id, vname, kind, "bary_rep"), m.n >= 2)
                    chk.cov["obligations_replayed"] += 1
                    if not (worst <= 1e-9):   # NaN counts as a deviation
                        fail("bary:%s:pointwise" % kind, "%s function and its barycentric representation differ by %.3g at corner %d of barycentric element %d (%s)" % (
                            kind, worst, where[1], where[0], vname))
            # ---- (b) exact nodal tables on the whole grid
            P1 = api.function_space(g, "P", 1, include_boundary_dofs=True)
            bP1 = P1.barycentric_representation()
            D = bP1.dof_transformation.tocsr()
            c = rng.randint(-4, 5, P1.global_dof_count).astype(float)
            bad = None
            for b, (parents, corners) in enumerate(lay):
                e = b // 6
                tab = [dict((tuple(x), v) for x, v in m.elem[e]["p1"][i]) for i in range(3)]
                fb = rb.bary_function(bP1, b, pts[:, :3], c, D)[0]
                for q, node in enumerate(corners):
                    want = sum(c[int(P1.local2global[e, i])] * P1.local_multipliers[e, i] * tab[i].get(node, 0) / 6.0 for i in range(3))
                    if abs(fb[q] - want) > 1e-9 and bad is None:
                        bad = (b, q, fb[q], want)
            chk.count((m.id, "p1_table"), True)
            if bad:
                fail("bary:P1:table", "barycentric P1 function takes %.6g at corner %d of barycentric element %d, exact %.6g" % (bad[2], bad[1], bad[0], bad[3]))
            # DUAL1: dof <-> element through the DP0 numbering, on the whole grid, a segment and a non-prefix support
            for vname, kw in variants:
                D0 = api.function_space(g, "DP", 0, **kw)
                S = [int(e) for e in np.flatnonzero(D0.support)]
                touching = [e for e in range(m.n) if any(set(m.el[e]) & set(m.el[f]) for f in S)]
                for trunc in (False, True):
                    d1 = api.function_space(g, "DUAL", 1, truncate_at_segment_edge=trunc, **kw)
                    if d1.global_dof_count != len(S):
                        fail("dual1:dof_count", "DUAL1 (%s, truncate=%s) has %d dofs for %d selected elements" % (vname, trunc, d1.global_dof_count, len(S)))
                        continue
                    supp = set(S) if trunc else set(touching)   # documented support: the selection, extended to its neighbours unless truncated
                    D = d1.dof_transformation.tocsr()
                    bad = None
                    for e in S:
                        dof = int(D0.local2global[e, 0])
                        tab = dict((tuple(x), v) for x, v in m.elem[e]["dual1"])
                        for b, (parents, corners) in enumerate(lay):
                            inside = (b // 6) in supp
                            vals = rd.bary_values(d1, b, pts[:, :3], D).get(dof) if d1.support[b] else None
                            for q, node in enumerate(corners):
                                num, den = tab.get(node, (0, 1)) if inside else (0, 1)
                                got = 0.0 if vals is None else float(vals[0, q])
                                if abs(got - num / den) > 1e-9 and bad is None:
                                    bad = (e, b, q, got, num, den)
                    chk.count((m.id, "dual1_table", vname, trunc), True)
                    if bad:
                        fail("dual1:nodal", "DUAL1 function of element %d takes %.6g at corner %d of barycentric element %d, documented value %d/%d (%s, truncate=%s)" % (
                            bad[0], bad[3], bad[2], bad[1], bad[4], bad[5], vname, trunc))
            D0 = api.function_space(g, "DP", 0)
            # DUAL0: dof <-> vertex through the P1 numbering (default options of both)
            P1d = api.function_space(g, "P", 1, include_boundary_dofs=True, truncate_at_segment_edge=False)
            d0 = api.function_space(g, "DUAL", 0, include_boundary_dofs=True, truncate_at_segment_edge=False)
            D = d0.dof_transformation.tocsr()
            cells = {}
            for e in range(m.n):
                for i in range(3):
                    for ch in m.elem[e]["dual0"][i]:
                        cells.setdefault(int(m.el[e, i]), set()).add(tuple(tuple(p) for p in ch))
            bad = None
            vert_of = {}
            for e in range(m.n):
                for i in range(3):
                    if P1d.local_multipliers[e, i] != 0:
                        vert_of[int(P1d.local2global[e, i])] = int(m.el[e, i])
            from harness import replay_grid as rgrid
            for b, (parents, corners) in enumerate(lay):
                key = rgrid.cyc_nf([np.array(x) for x in corners])
                vals = rd.bary_values(d0, b, np.array([[1 / 3.0], [1 / 3.0]]), D)
                for dof, v in vert_of.items():
                    got = float(vals[dof][0, 0]) if dof in vals else 0.0
                    want = 1.0 if key in cells.get(v, ()) else 0.0
                    if abs(got - want) > 1e-9 and bad is None:
                        bad = (v, b, got, want)
            chk.count((m.id, "dual0_cells"), True)
            if bad:
                fail("dual0:cells", "DUAL0 function of vertex %d takes %.6g on barycentric element %d, exact %.6g" % bad)
            # ---- (c) mixed mass matrices
            def Dfull(space):
                return space.map_to_full_grid.dot(space.dof_transformation.tocsr()).toarray()

            pairs = [("identity(P1,P1,DUAL0)", P1d, d0), ("identity(DP0,DP0,DUAL1)", D0, api.function_space(g, "DUAL", 1)),
                     ("identity(P1,P1,DUAL1)", P1d, api.function_space(g, "DUAL", 1)), ("identity(DUAL0,DUAL0,P1)", d0, P1d)]
            if m.h["closed"] and m.h["manifold"]:
                rwg = api.function_space(g, "RWG", 0)
                snc = api.function_space(g, "SNC", 0)
                bc = api.function_space(g, "BC", 0)
                rbc = api.function_space(g, "RBC", 0)
                pairs += [("identity(RWG,RWG,RBC)", rwg, rbc), ("identity(BC,BC,SNC)", bc, snc), ("identity(BC,BC,RBC)", bc, rbc)]
            plain = {}

            def plain_space(bs):
                """element-wise space on the whole barycentric grid with the local basis of the barycentric space bs"""
                key = (bs.shapeset.identifier, bs.identifier)
                if key not in plain:
                    if bs.shapeset.identifier == "p0_discontinuous":
                        plain[key] = api.function_space(bg, "DP", 0)
                    elif bs.shapeset.identifier == "p1_discontinuous":
                        plain[key] = api.function_space(bg, "DP", 1)
                    elif bs.identifier == "snc0":
                        plain[key] = api.function_space(bg, "SNC", 0, include_boundary_dofs=True).localised_space
                    else:
                        plain[key] = api.function_space(bg, "RWG", 0, include_boundary_dofs=True).localised_space
                return plain[key]

            for name, dom_sp, dual_sp in pairs:
                bd = dom_sp if dom_sp.is_barycentric else dom_sp.barycentric_representation()
                bt = dual_sp if dual_sp.is_barycentric else dual_sp.barycentric_representation()
                pd, pt = plain_space(bd), plain_space(bt)
                Mloc = sparse.identity(pd, pd, pt).weak_form().to_dense()
                W = Dfull(bt).T.dot(Mloc).dot(Dfull(bd))
                A = sparse.identity(dom_sp, dom_sp, dual_sp).weak_form().to_dense()
                chk.count((m.id, name), True)
                chk.cov["obligations_replayed"] += 1
                sc = max(1e-3, np.abs(W).max())
                if A.shape != W.shape or np.abs(A - W).max() > TOL * sc:
                    fail("mixed_mass:%s" % name, "%s deviates by %.3g from the integral of the product of the two bases" % (name, np.abs(A - W).max() / sc if A.shape == W.shape else float("nan")))
            # ---- (d) Buffa-Christiansen spaces on open surfaces: conforming, and independent of the numbering
            if m.h["manifold"] and not m.h["closed"] and m.n >= 3:
                rwgA = api.function_space(g, "RWG", 0)
                if rwgA.global_dof_count >= 2:
                    order = list(range(m.n))[::-1]
                    elB = np.array([np.roll(m.el[e], e % 3) for e in order])
                    gB = api.Grid(m.xyz.T.copy(), elB.T.astype("uint32"))
                    rwgB = api.function_space(gB, "RWG", 0)

                    def edge_of(space, el):
                        out = {}
                        for e in np.flatnonzero(space.support):
                            for i, (a, b2) in enumerate(((0, 1), (2, 0), (1, 2))):
                                if space.local_multipliers[e, i] != 0:
                                    out[int(space.local2global[e, i])] = frozenset((int(el[e][a]), int(el[e][b2])))
                        return out

                    eA, eB = edge_of(rwgA, m.el), edge_of(rwgB, elB)
                    inv = {v: k for k, v in eB.items()}
                    if sorted(eA.values(), key=sorted) != sorted(eB.values(), key=sorted):
                        fail("bc:relabel:dofs", "RWG dof edges differ between two numberings of the same open mesh")
                    else:
                        perm = [inv[eA[d]] for d in range(rwgA.global_dof_count)]
                        for kname in ("BC", "RBC"):
                            try:
                                sA = api.function_space(g, kname, 0)
                                sB = api.function_space(gB, kname, 0)
                            except Exception as exc:
                                if "connected only by a vertex" in str(exc):
                                    continue
                                raise
                            GA = np.abs(np.asarray(sparse.identity(sA, sA, sA).weak_form().to_dense()))
                            GB = np.abs(np.asarray(sparse.identity(sB, sB, sB).weak_form().to_dense()))[np.ix_(perm, perm)]
                            chk.count((m.id, kname, "relabel"), True)
                            if not (np.abs(GA - GB).max() <= 1e-10 * max(1e-3, GA.max())):   # NaN counts as a deviation
                                fail("bc:relabel:%s" % kname, "the Gram matrix of the %s space changes by %.3g when elements are renumbered and locally rotated" % (kname, np.abs(GA - GB).max() / GA.max()))
                            rd.check_bary_conformity(sA, lambda a, d: fail("bc:%s:%s" % (kname, a), d), kname, kname)
            if mi < 3:
                chk.sample({"mesh": label, "element_1": {k: m.elem[0][k] for k in ("nodes", "dual1")}})
        except Exception as exc:
            import traceback

            fail("exception", "%s: %s | %s" % (type(exc).__name__, exc, traceback.format_exc()[-500:].replace("\n", " | ")))
    chk.cov["rule"] = ("per mesh: pointwise agreement of DP0/P1/RWG/SNC functions with their barycentric representations on whole grid, a segment and a "
                       "non-prefix support; exact P1 nodal table; DUAL1 nodal values and DUAL0 cells for every dof at every barycentric corner; mixed mass matrices")
    chk.cov["meshes"] = len(meshes)
    return chk.finish()


if __name__ == "__main__":
    common.main(body)

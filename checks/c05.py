"""C05 Helmholtz-family operators are consistent with Laplace and with each other.

Spec: Catalogue.tla (wavenumber routing of the four boundary and two potential Helmholtz factories with the requirement
RoutePreservesKernel; the as-written potential routing is a negative configuration).  Every (site, wavenumber) state is
replayed into the real factory; the relations the property states (entrywise low-frequency bounds, k = i w coincides with
modified Helmholtz also in the limit of a vanishing real part, conjugation under k -> -conj k, symmetries) are evaluated on
the matrices of several grids and space pairs.  This is the thinnest use of the specification in the suite: the bounds are
stated by the property and hold pointwise for the kernels, hence for any positive-weight quadrature.
"""

import os
import sys

sys.path.insert(0, os.path.dirname(os.path.dirname(os.path.abspath(__file__))))
from harness import common  # noqa: E402

PID = "C05"


def body():
    chk = common.Check(PID, "exploration")
    api = common.use_repo()
    import numpy as np
    from harness import replay_grid as rg

    chk.assume(
        "|exp(ikr)-1-ikr| <= |k|^2 r^2 / 2 * e^{|Im k| r} and |d/dn (exp(ikr)-1)/r| <= |k|^2 pointwise, so the entrywise bounds hold for any positive-weight "
        "quadrature when |k| D <= 1 (stated by the property, evaluated here); for Im k < 0 (growing kernel) only |k| D <= 1/2 is judged: |e^z - 1 - z| <= |z|^2 e^|z| / 2",
        "symmetry clauses (V = V^T, W = W^T, K' = K^T) are quadrature-limited: judged at orders (8,8) against 1e-6 (quick: on the octahedron only), recorded at (4,4)",
    )
    quick = chk.tier == "quick"
    res = common.run_tlc("Catalogue", "Catalogue.cfg", timeout=600)
    chk.add_tlc("Catalogue (potential factories pass Im k)", res)
    if not res.ok:
        chk.violation("spec:" + str(res.violated), "TLC: Catalogue violates %s" % res.violated, {})
        return chk.finish()
    neg = common.run_tlc("Catalogue", "Catalogue_asis.cfg", timeout=600)
    chk.add_tlc("Catalogue negative configuration (potential factories pass k)", neg, note="must violate RoutePreservesKernel")
    if neg.ok:
        raise common.MachineryError("negative routing configuration did not violate RoutePreservesKernel")
    par = api.GLOBAL_PARAMETERS
    par.quadrature.regular, par.quadrature.singular = 4, 4
    b = api.operators.boundary
    pot = api.operators.potential
    # grids with diameter D: |k| D <= 1 is arranged by scaling k
    meshes = {}
    V = np.array([[1, 0, 0], [-1, 0, 0], [0, 2, 0], [0, -2, 0], [0, 0, 3], [0, 0, -3]], dtype=float).T / 3.0
    E = np.array([[0, 2, 4], [0, 5, 2], [0, 4, 3], [0, 3, 5], [1, 4, 2], [1, 2, 5], [1, 3, 4], [1, 5, 3]]).T
    meshes["OCT/3"] = api.Grid(V, E, np.array([0, 5, 10, 0, 5, 10, 0, 5]))
    Vs = np.array([[x, y, 0.3 * x * y] for y in range(3) for x in range(3)], dtype=float).T * 0.4
    Es = []
    for y in range(2):
        for x in range(2):
            a = 3 * y + x
            Es += [[a, a + 1, a + 4], [a, a + 4, a + 3]]
    meshes["STRIP"] = api.Grid(Vs, np.array(Es).T)
    if not quick:
        meshes["OCT/3 refined"] = meshes["OCT/3"].refine()
    pts = np.array([[2.0, 0.3, 0.1], [0.2, -3.0, 0.4], [0.5, 0.4, 4.0]]).T
    # ---- routing obligations ---------------------------------------------------------------------
    g0 = meshes["OCT/3"]
    P1, D0 = api.function_space(g0, "P", 1), api.function_space(g0, "DP", 0)
    for ob in res.obligations:
        k = complex(ob["re4"] / 4.0, ob["im4"] / 4.0)
        site = ob["site"]
        label = "%s k=%s" % (site, k)
        chk.count(label, True)
        try:
            if site.startswith("boundary"):
                name = site.split(".")[1]
                op = getattr(b.helmholtz, name)(P1, P1, P1, k) if name == "hypersingular" else getattr(b.helmholtz, name)(P1, D0, D0, k)
                desc = op.descriptor
            else:
                name = site.split(".")[1]
                op = getattr(pot.helmholtz, name)(P1, pts, k)
                desc = None
            want = ob["route"]
            if desc is not None:
                fam = "modified_helmholtz" if desc.identifier.startswith("modified_helmholtz") else "helmholtz"
                opts = [float(x) for x in desc.options]
                wopts = [want["decay"]/4.0] if want["family"] == "modified_helmholtz" else [want["osc"]/4.0, want["decay"]/4.0]
                if fam != want["family"] or len(opts) != len(wopts) or np.abs(np.array(opts) - np.array(wopts)).max() > 1e-15:
                    chk.violation("routing:%s" % site, "%s: routed to %s%s, required %s%s" % (label, fam, opts, want["family"], wopts), {"obligation": ob})
            # the routed operator equals the operator of the other family with the same kernel
            if ob["re4"] == 0:
                w = ob["im4"] / 4.0
                if site.startswith("boundary"):
                    ref = getattr(b.modified_helmholtz, name)(P1, P1, P1, w) if name == "hypersingular" else getattr(b.modified_helmholtz, name)(P1, D0, D0, w)
                    A, R = op.weak_form().to_dense(), ref.weak_form().to_dense()
                else:
                    f = api.GridFunction(P1, coefficients=np.arange(1.0, 7.0))
                    A, R = op.evaluate(f), getattr(pot.modified_helmholtz, name)(P1, pts, w).evaluate(f)
                if not (np.abs(A - R).max() <= 1e-13 * np.abs(R).max()):   # NaN counts as a deviation
                    chk.violation("imaginary_k:%s" % site, "%s differs from modified_helmholtz(w=%s) by %.3g" % (label, w, np.abs(A - R).max() / np.abs(R).max()), {"obligation": ob})
                # every optional argument reaches the routed factory: an explicit parameter object with other orders than the global ones,
                # an explicit assembler and precision give exactly what the modified Helmholtz factory gives for the same arguments
                if "parameters" in ob["forwards"]:
                    from bempp_cl.api.utils.parameters import DefaultParameters

                    Pq = DefaultParameters()
                    Pq.quadrature.regular, Pq.quadrature.singular = 2, 3
                    if site.startswith("boundary"):
                        kw = dict(parameters=Pq, assembler="dense", precision="double")
                        Ap = (getattr(b.helmholtz, name)(P1, P1, P1, k, **kw) if name == "hypersingular" else getattr(b.helmholtz, name)(P1, D0, D0, k, **kw)).weak_form().to_dense()
                        Rp = (getattr(b.modified_helmholtz, name)(P1, P1, P1, w, **kw) if name == "hypersingular" else getattr(b.modified_helmholtz, name)(P1, D0, D0, w, **kw)).weak_form().to_dense()
                    else:
                        kw = dict(parameters=Pq, assembler="dense", precision="double")
                        Ap, Rp = getattr(pot.helmholtz, name)(P1, pts, k, **kw).evaluate(f), getattr(pot.modified_helmholtz, name)(P1, pts, w, **kw).evaluate(f)
                    chk.count(label + " explicit arguments", True)
                    if np.abs(Rp - R).max() <= 1e-9 * np.abs(R).max():
                        raise common.MachineryError("orders (2,3) give the same numbers as the global orders: the forwarding test is vacuous")
                    if not (np.abs(Ap - Rp).max() <= 1e-13 * np.abs(Rp).max()):   # NaN counts as a deviation
                        chk.violation("forwarding:%s" % site, "%s with an explicit parameter object (orders 2,3), assembler and precision differs from modified_helmholtz(w=%s) with the same arguments by %.3g: an optional argument is not handed on" % (
                            label, w, np.abs(Ap - Rp).max() / np.abs(Rp).max()), {"obligation": ob})
                # limit of a vanishing real part
                eps = 1e-7
                if site.startswith("boundary"):
                    Ae = (getattr(b.helmholtz, name)(P1, P1, P1, eps + 1j * w) if name == "hypersingular" else getattr(b.helmholtz, name)(P1, D0, D0, eps + 1j * w)).weak_form().to_dense()
                else:
                    Ae = getattr(pot.helmholtz, name)(P1, pts, eps + 1j * w).evaluate(f)
                if not (np.abs(Ae - R).max() <= 50 * eps * max(np.abs(R).max(), 1e-3)):   # NaN counts as a deviation
                    chk.violation("imaginary_k_limit:%s" % site, "%s: helmholtz(eps + i w) is %.3g away from modified_helmholtz(w) for eps = 1e-7" % (label, np.abs(Ae - R).max()), {"obligation": ob})
        except Exception as exc:
            chk.violation("routing:%s:exception" % site, "%s: %s: %s" % (label, type(exc).__name__, str(exc)[:200]), {"obligation": ob})
    # ---- relations on matrices ---------------------------------------------------------------------
    ks = [0.3, 0.3 + 0.2j, 0.25j, -0.3 + 0.2j, 0.05 + 0.4j, 0.2 - 0.15j] if quick else [0.3, 0.1, 0.3 + 0.2j, 0.25j, -0.3 + 0.2j, 0.05 + 0.4j, 0.45 - 0.0j, 0.2 + 0.4j, 0.2 - 0.15j, -0.1 - 0.2j]
    worst = {"sl": 0.0, "dl": 0.0}
    for gname, g in meshes.items():
        D = float(np.max(np.linalg.norm(g.vertices[:, :, None] - g.vertices[:, None, :], axis=0)))
        sp = {"P1": api.function_space(g, "P", 1, include_boundary_dofs=True), "DP0": api.function_space(g, "DP", 0), "DP1": api.function_space(g, "DP", 1)}
        # m = integrals of the absolute basis functions
        m = {}
        for kname, s in sp.items():
            ones = np.ones(s.global_dof_count)
            M = b.sparse.identity(s, s, sp["DP0"]).weak_form().to_dense()
            m[kname] = np.asarray(np.abs(M).sum(axis=0)).ravel()      # int |phi_j| (basis functions are non-negative)
        pairs = [("DP0", "DP0"), ("P1", "DP0"), ("P1", "P1"), ("DP1", "P1")] if not quick else [("DP0", "DP0"), ("P1", "DP1")]
        for kd, kt in pairs:
            L = {n: getattr(b.laplace, n)(sp[kd], sp[kt], sp[kt]).weak_form().to_dense() for n in ("single_layer", "double_layer", "adjoint_double_layer")}
            mm = np.outer(m[kt], m[kd])
            for k in ks:
                kk = k * (1.0 / (D * max(abs(k), 1e-9))) * min(1.0, abs(k) * D) if abs(k) * D > 1 else k   # enforce |k| D <= 1
                if np.imag(k) < 0 and abs(kk) * D > 0.5:
                    kk = kk * 0.5 / (abs(kk) * D)      # growing kernels (Im k < 0): the bounds follow from |e^z - 1 - z| <= |z|^2 e^|z| / 2 only for |k| D <= 1/2
                label = "%s %s->%s k=%s" % (gname, kd, kt, np.round(kk, 4))
                H = {n: getattr(b.helmholtz, n)(sp[kd], sp[kt], sp[kt], kk).weak_form().to_dense() for n in ("single_layer", "double_layer", "adjoint_double_layer")}
                chk.count(label, True)
                # single layer: H - L - i k/(4 pi) m m^T bounded by |k|^2 D/(4 pi) m m^T
                R = H["single_layer"] - L["single_layer"] - 1j * kk / (4 * np.pi) * mm
                bound = abs(kk) ** 2 * D / (4 * np.pi) * mm
                ratio = float((np.abs(R) / bound).max())
                worst["sl"] = max(worst["sl"], ratio)
                if not (ratio <= 1.0 + 1e-9):   # NaN counts as a deviation
                    chk.violation("bound:single_layer", "%s: |H - L - ik/4pi m m'| exceeds |k|^2 D/4pi m m' by the factor %.4g" % (label, ratio), {"k": [kk.real if isinstance(kk, complex) else kk, getattr(kk, 'imag', 0.0)]})
                for n in ("double_layer", "adjoint_double_layer"):
                    R = H[n] - L[n]
                    bound = abs(kk) ** 2 / (4 * np.pi) * mm
                    ratio = float((np.abs(R) / bound).max())
                    worst["dl"] = max(worst["dl"], ratio)
                    if not (ratio <= 1.0 + 1e-9):   # NaN counts as a deviation
                        chk.violation("bound:%s" % n, "%s: |K_H - K_L| exceeds |k|^2/4pi m m' by the factor %.4g" % (label, ratio), {})
                # conjugation: Op(-conj k) = conj Op(k)
                kc = -np.conj(kk)
                for n in ("single_layer", "double_layer", "adjoint_double_layer"):
                    Hc = getattr(b.helmholtz, n)(sp[kd], sp[kt], sp[kt], kc).weak_form().to_dense()
                    if not (np.abs(Hc - np.conj(H[n])).max() <= 1e-13 * np.abs(H[n]).max()):   # NaN counts as a deviation
                        chk.violation("conjugation:%s" % n, "%s: %s(-conj k) differs from conj %s(k) by %.3g" % (label, n, n, np.abs(Hc - np.conj(H[n])).max() / np.abs(H[n]).max()), {})
                if kd == kt == "P1":
                    W = b.helmholtz.hypersingular(sp["P1"], sp["P1"], sp["P1"], kk).weak_form().to_dense()
                    Wc = b.helmholtz.hypersingular(sp["P1"], sp["P1"], sp["P1"], kc).weak_form().to_dense()
                    if not (np.abs(Wc - np.conj(W)).max() <= 1e-13 * np.abs(W).max()):   # NaN counts as a deviation
                        chk.violation("conjugation:hypersingular", "%s: hypersingular(-conj k) differs from the conjugate" % label, {})
        # symmetry clauses (thorough: judged at order 8)
        sym = {}
        for order, judged in (((4, 4), False), ((8, 8), True)):
            if quick and gname != "OCT/3" and order == (8, 8):
                continue
            par.quadrature.regular, par.quadrature.singular = order
            k = 0.3 + 0.2j
            Vh = b.helmholtz.single_layer(sp["P1"], sp["P1"], sp["P1"], k).weak_form().to_dense()
            Wh = b.helmholtz.hypersingular(sp["P1"], sp["P1"], sp["P1"], k).weak_form().to_dense()
            Kh = b.helmholtz.double_layer(sp["P1"], sp["DP0"], sp["DP0"], k).weak_form().to_dense()
            Ka = b.helmholtz.adjoint_double_layer(sp["DP0"], sp["P1"], sp["P1"], k).weak_form().to_dense()
            vals = {"V": np.abs(Vh - Vh.T).max() / np.abs(Vh).max(), "W": np.abs(Wh - Wh.T).max() / np.abs(Wh).max(), "Kadj": np.abs(Ka - Kh.T).max() / np.abs(Kh).max()}
            sym[str(order)] = {a: float(v) for a, v in vals.items()}
            if judged:
                for a, v in vals.items():
                    chk.count(("symmetry", gname, a), True)
                    if not (v <= 1e-6):   # NaN counts as a deviation
                        chk.violation("symmetry:%s" % a, "%s on %s: asymmetry %.3g at orders (8,8)" % (a, gname, v), {})
            par.quadrature.regular, par.quadrature.singular = 4, 4
        chk.part("symmetry_defects", **{gname: sym})
        # the same with the normals of one domain swapped (non-constant normal multipliers): W stays complex-symmetric and W(eps + i w) -> W_modified(w)
        doms = sorted(set(int(x) for x in g.domain_indices))
        if len(doms) > 1:
            par.quadrature.regular, par.quadrature.singular = 8, 8
            ps = api.function_space(g, "P", 1, include_boundary_dofs=True, swapped_normals=[doms[-1]])
            Ws = b.helmholtz.hypersingular(ps, ps, ps, 0.3 + 0.2j).weak_form().to_dense()
            v = float(np.abs(Ws - Ws.T).max() / np.abs(Ws).max())
            chk.count(("symmetry", gname, "W swapped normals"), True)
            chk.part("symmetry_defects_swapped", **{gname: v})
            if not (v <= 1e-6):   # NaN counts as a deviation
                chk.violation("symmetry:W", "hypersingular with the normals of domain %d swapped on %s: asymmetry %.3g at orders (8,8)" % (doms[-1], gname, v), {})
            par.quadrature.regular, par.quadrature.singular = 4, 4
            We = b.helmholtz.hypersingular(ps, ps, ps, 1e-7 + 0.5j).weak_form().to_dense()
            Wm = b.modified_helmholtz.hypersingular(ps, ps, ps, 0.5).weak_form().to_dense()
            chk.count(("imaginary_k_limit", gname, "W swapped normals"), True)
            if not (np.abs(We - Wm).max() <= 50 * 1e-7 * np.abs(Wm).max()):   # NaN counts as a deviation
                chk.violation("imaginary_k_limit:boundary.hypersingular", "hypersingular(1e-7 + 0.5i) with the normals of domain %d swapped is %.3g away from modified_helmholtz(0.5) on %s" % (
                    doms[-1], np.abs(We - Wm).max() / np.abs(Wm).max(), gname), {})
    chk.cov["worst_bound_ratio"] = worst
    chk.sample({"routing": res.obligations[0], "bound_ratio_single_layer": worst["sl"], "bound_ratio_double_layer": worst["dl"]})
    chk.cov["rule"] = "one evaluation per (site, wavenumber) routing state and per (grid, space pair, wavenumber) for the bounds / conjugation relations; all are distinct inputs"
    return chk.finish()


if __name__ == "__main__":
    common.main(body)

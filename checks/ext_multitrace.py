"""EXT-MULTITRACE (extension beyond the listed properties, DESIGN 12.7): multitrace operator factories against spec/Multitrace.tla.

TLC checks that the documented block tables are well formed (one domain per column, one range / dual per row, squarable
where the Calderon projector is typed) and emits one obligation per (family, space_type, same / other target grid); each is
replayed: the factory's blocked operator must have the documented spaces and every block must equal the standalone operator
with the documented sign.  Documented combinations that the factory cannot build are reported as NOTEs (extension; not a
listed property).  multitrace_identity is compared with the identities of the operator's spaces.
Result: /verif/evidence_ext/EXT-MULTITRACE.json.  Exit codes: 0 held, 1 violation, 2 machinery.
"""

import json
import os
import sys
import time

sys.path.insert(0, os.path.dirname(os.path.dirname(os.path.abspath(__file__))))
from harness import common  # noqa: E402

KIND = {"P1": ("P", 1), "DP0": ("DP", 0), "DUAL0": ("DUAL", 0), "RWG": ("RWG", 0), "SNC": ("SNC", 0), "BC": ("BC", 0), "RBC": ("RBC", 0)}


def main():
    t0 = time.time()
    tier = common.tier()
    api = common.use_repo()
    import numpy as np

    res = common.run_tlc("Multitrace", "Multitrace.cfg", workers=1, timeout=600)
    problems, notes = [], []
    if not res.ok:
        problems.append("TLC: Multitrace violates %s" % res.violated)
    V = np.array([[0, 0, 0], [1, 0, 0], [0, 2, 0], [1, 2, 0], [0, 0, 3], [1, 0, 3], [0, 2, 3], [1, 2, 3]], dtype=float).T
    E = (np.array([[1, 4, 2], [1, 3, 4], [5, 6, 7], [6, 8, 7], [1, 2, 5], [2, 6, 5], [3, 8, 4], [3, 7, 8], [1, 7, 3], [1, 5, 7], [2, 4, 6], [4, 8, 6]]) - 1).T
    g, g2 = api.Grid(V, E), api.Grid(V + np.array([[5.0], [0.5], [0.0]]), E)
    b = api.operators.boundary
    k = 0.9 + 0.1j
    n_ob = built = 0
    for ob in res.obligations:
        n_ob += 1
        fam, typ, other = ob["fam"], ob["typ"], ob["other"]
        label = "%s.multitrace_operator(space_type=%r, target=%s)" % (fam, typ, "other grid" if other else "None")
        mod = getattr(b, fam)
        args = () if fam == "laplace" else (k,)
        try:
            A = mod.multitrace_operator(g, *args, target=g2 if other else None, space_type=typ)
            W = A.weak_form()
        except Exception as exc:
            notes.append("%s cannot be built: %s: %s" % (label, type(exc).__name__, str(exc)[:110]))
            continue
        built += 1

        def space(name):
            grid = g2 if name.startswith("T:") else g
            kind, deg = KIND[name.split(":")[-1]]
            return api.function_space(grid, kind, deg)

        try:
            for i in range(2):
                for j in range(2):
                    blk = ob["blocks"][i][j]
                    dom, ran, dua = space(blk["dom"]), space(blk["ran"]), space(blk["dua"])
                    if A.domain_spaces[j] != dom or A.range_spaces[i] != ran or A.dual_to_range_spaces[i] != dua:
                        problems.append("%s: spaces of block (%d,%d) differ from the documented (%s, %s, %s)" % (label, i, j, blk["dom"], blk["ran"], blk["dua"]))
                        continue
                    ref = getattr(mod, blk["op"])(dom, ran, dua, *args).weak_form().to_dense() * blk["scale"]
                    got = A[i, j].weak_form().to_dense()
                    if np.abs(got - ref).max() > 1e-12 * max(1e-3, np.abs(ref).max()):
                        problems.append("%s: block (%d,%d) differs from %s%s by %.3g" % (label, i, j, "-" if blk["scale"] < 0 else "", blk["op"], np.abs(got - ref).max() / np.abs(ref).max()))
            D = np.asarray(W.to_dense())
            x = np.arange(1.0, D.shape[1] + 1)
            if np.abs(W @ x - D.dot(x)).max() > 1e-10 * np.abs(D.dot(x)).max():
                problems.append("%s: blocked weak form and its dense matrix act differently" % label)
            if not other:   # identities need one grid
                I = b.sparse.multitrace_identity(A)
                n0, m0 = A.dual_to_range_spaces[0].global_dof_count, A.domain_spaces[0].global_dof_count
                Id = np.asarray(I.weak_form().to_dense())
                refs = [np.asarray(b.sparse.identity(A.domain_spaces[i], A.range_spaces[i], A.dual_to_range_spaces[i]).weak_form().to_dense()) for i in range(2)]
                if np.abs(Id[:n0, :m0] - refs[0]).max() > 1e-13 or np.abs(Id[n0:, m0:] - refs[1]).max() > 1e-13 or np.abs(Id[:n0, m0:]).max() != 0 or np.abs(Id[n0:, :m0]).max() != 0:
                    problems.append("%s: multitrace_identity is not the block-diagonal matrix of the identities of the operator's spaces" % label)
        except Exception as exc:
            problems.append("%s: %s: %s" % (label, type(exc).__name__, str(exc)[:160]))
    out = {"id": "EXT-MULTITRACE", "tier": tier, "tlc": {"distinct_states": res.distinct, "ok": res.ok}, "obligations": n_ob, "built": built, "problems": problems[:20], "notes": notes,
           "wall_s": round(time.time() - t0, 1)}
    dd = os.path.join(os.environ["VERIF_EVIDENCE_DIR"], "ext") if os.environ.get("VERIF_EVIDENCE_DIR") else os.path.join(common.VERIF, "evidence_ext")
    os.makedirs(dd, exist_ok=True)
    with open(os.path.join(dd, "EXT-MULTITRACE.json"), "w") as f:
        json.dump(out, f, indent=1)
    for nt in notes:
        print("NOTE (extension, not a listed property): " + nt)
    if n_ob == 0 or built == 0:
        raise common.MachineryError("no obligation could be replayed")
    if problems:
        for p_ in problems[:5]:
            print("EXT-VIOLATION id=EXT-MULTITRACE " + p_)
        return 1
    print("OK id=EXT-MULTITRACE tier=%s obligations=%d built=%d wall=%.1fs" % (tier, n_ob, built, time.time() - t0))
    return 0


if __name__ == "__main__":
    common.main(main)

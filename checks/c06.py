"""C06 Hypersingular and Maxwell operators equal their single-layer decompositions.

Spec: L2Model/L2Exact/GalerkinExact (exact integer data of the sparse maps: surface curls -e_i/J, normals Cross/J, RWG
components l_k (p_m - p_opp(k))/J, divergences 2 l_k/J for every element of the universe; the identity
e_i.e_j = sum_c e_ic e_jc that makes the curl form of the hypersingular operator a sum of single-layer forms is what
GalerkinModel.EdgeDots encodes and C01 verifies with exact probes).  Binding: the maps are built from TLC's integers, the
single-layer matrices V0 (DP0) and V1 (DP1) are assembled with the real kernels and
   W = sum_c C_c' V0 C_c - k^2 sum_c N_c' V1 N_c,      E = -ik sum_c R_c' V1 R_c - 1/(ik) D' V0 D
are compared with the hypersingular and electric-field matrices to rounding, for P1 / RWG / SNC spaces of every variant.
"""

import os
import sys

sys.path.insert(0, os.path.dirname(os.path.dirname(os.path.abspath(__file__))))
from harness import common  # noqa: E402

PID = "C06"
TOL = 1e-10


def body():
    chk = common.Check(PID, "model_checking")
    api = common.use_repo()
    import numpy as np
    import c13
    from harness import replay_l2 as r2

    chk.assume(
        "the sparse maps C, N, R, D are built from TLC's integer data (L2Model) and sqrt of its integers; V0, V1 are the library's own single-layer "
        "matrices on the element-wise spaces, so the relation is structural and holds to rounding for any quadrature order",
        "test functions of the electric-field operator are the RWG-type local functions of the SNC space (same shapeset, same multipliers)",
        "complex symmetry of the Maxwell matrices is quadrature-limited: judged in the thorough tier at orders (8,8) against 1e-3 (observed defects on the coarse meshes: 1e-5 range, recorded in the evidence; a wrong sign or transposition gives O(1))",
    )
    quick = chk.tier == "quick"
    meshes = c13.l2_obligations(chk, "c06", ["OCT", "TET", "STRIP8"], 1 if quick else 2, 1)
    if quick:
        meshes = [m for k, m in enumerate(meshes) if len(m.h["sub"]) in (4, 8) or k % 4 == 0]
    else:
        meshes += c13.l2_obligations(chk, "c06b", ["CUBE12"], 1, 2)
    b = api.operators.boundary
    par = api.GLOBAL_PARAMETERS
    par.quadrature.regular, par.quadrature.singular = 4, 4
    for mi, m in enumerate(meshes):
        label = "%s/%s" % (m.h["base"], "".join(map(str, m.h["sub"])))

        def fail(key, detail, m=m, label=label):
            chk.violation(key, "%s on %s" % (detail, label), {"mesh": {k: m.h[k] for k in ("base", "sub", "xyz", "el", "dom")}})

        try:
            g = m.grid(api)
            n = m.n
            closed = bool(g.edge_on_boundary.sum() == 0)
            D0 = api.function_space(g, "DP", 0)
            D1 = api.function_space(g, "DP", 1)
            # maps from the element-wise P1 basis (3n) / RWG basis (3n) to DP0 (n) or DP1 (3n) coefficients, per component
            C = [np.zeros((n, 3 * n)) for _ in range(3)]
            N = [np.zeros((3 * n, 3 * n)) for _ in range(3)]
            R = [np.zeros((3 * n, 3 * n)) for _ in range(3)]
            Dv = np.zeros((n, 3 * n))
            for e in range(n):
                d = m.elem[e]
                J, l = m.J[e], m.l[e]
                for i in range(3):
                    for c in range(3):
                        C[c][e, 3 * e + i] = -d["eopp"][i][c] / J          # surface curl of lambda_i
                        N[c][3 * e + i, 3 * e + i] = d["cross"][c] / J     # unit normal component
                for k in range(3):
                    Dv[e, 3 * e + k] = 2.0 * l[k] / J
                    for mm in range(3):
                        for c in range(3):
                            R[c][3 * e + mm, 3 * e + k] = l[k] * d["pdiff"][k][mm][c] / J
            segs = sorted(set(m.dom.tolist()))
            variants = [("all", {})]
            if len(segs) > 1:
                variants.append(("seg%d" % segs[-1], {"segments": [int(segs[-1])]}))
            if n >= 3:
                variants.append(("sup", {"support_elements": np.array([n - 2, n - 1], dtype="uint32")}))
            if len(segs) > 1:
                # normals of one domain swapped: surface curl and normal of those elements change sign, W = T' S Whyp S T
                variants.append(("swap%d" % segs[-1], {"swapped_normals": [int(segs[-1])]}))
                variants.append(("swap%d" % segs[0], {"swapped_normals": [int(segs[0])]}))
            ks = [0.0, 0.9, 0.7 + 0.4j] if quick else [0.0, 0.9, 0.7 + 0.4j, 0.6j, -0.5 + 0.3j]
            for k in ks:
                if k == 0.0:
                    V0 = b.laplace.single_layer(D0, D0, D0).weak_form().to_dense()
                    V1 = b.laplace.single_layer(D1, D1, D1).weak_form().to_dense()
                else:
                    V0 = b.helmholtz.single_layer(D0, D0, D0, k).weak_form().to_dense()
                    V1 = b.helmholtz.single_layer(D1, D1, D1, k).weak_form().to_dense()
                Whyp = sum(Cc.T.dot(V0).dot(Cc) for Cc in C) - (k ** 2) * sum(Nc.T.dot(V1).dot(Nc) for Nc in N)
                Eloc = None
                if k != 0.0:
                    Eloc = -1j * k * sum(Rc.T.dot(V1).dot(Rc) for Rc in R) - 1.0 / (1j * k) * Dv.T.dot(V0).dot(Dv)
                for vname, kw in variants:
                    for ibd in (False, True):
                        P1 = api.function_space(g, "P", 1, include_boundary_dofs=ibd, **kw)
                        if P1.global_dof_count == 0 or (not ibd and P1.local_multipliers.sum() == 0):
                            continue
                        T = P1.map_to_full_grid.toarray()
                        if not T.any():
                            continue
                        W = (b.laplace.hypersingular(P1, P1, P1) if k == 0.0 else b.helmholtz.hypersingular(P1, P1, P1, k)).weak_form().to_dense()
                        if vname.startswith("swap"):
                            S = np.repeat(np.where(m.dom == kw["swapped_normals"][0], -1.0, 1.0), 3)
                            T = S[:, None] * T
                        want = T.T.dot(Whyp).dot(T)
                        chk.count((m.id, "hyp", k, vname, ibd), n >= 2)
                        chk.cov["obligations_replayed"] += 1
                        e_ = np.abs(W - want).max() / max(1e-3, np.abs(want).max())
                        if not (e_ <= TOL):   # NaN counts as a deviation
                            fail("decomposition:hypersingular", "hypersingular matrix (k=%s, P1 %s, boundary dofs %s) differs from sum C'V0C - k^2 sum N'V1N by %.3g" % (k, vname, ibd, e_))
                        if k == 0.0 and closed and vname == "all":
                            if not (np.abs(W.dot(np.ones(W.shape[1]))).max() <= 1e-10 * np.abs(W).max()):   # NaN counts as a deviation
                                fail("hypersingular:constants", "the Laplace hypersingular matrix does not annihilate constants on a closed surface")
                        if k not in (0.0,) and isinstance(k, complex) and k.real == 0:
                            Wm = b.modified_helmholtz.hypersingular(P1, P1, P1, k.imag).weak_form().to_dense()
                            if not (np.abs(Wm - want).max() <= TOL * max(1e-3, np.abs(want).max())):   # NaN counts as a deviation
                                fail("decomposition:modified_hypersingular", "modified Helmholtz hypersingular (w=%s) differs from the decomposition" % k.imag)
                        if Eloc is not None and not vname.startswith("swap"):
                            try:
                                rwg = api.function_space(g, "RWG", 0, include_boundary_dofs=ibd, **kw)
                                snc = api.function_space(g, "SNC", 0, include_boundary_dofs=ibd, **kw)
                            except Exception:
                                continue
                            if rwg.global_dof_count == 0 or not rwg.local_multipliers.any():
                                continue
                            Tr, Ts = rwg.map_to_full_grid.toarray(), snc.map_to_full_grid.toarray()
                            Em = b.maxwell.electric_field(rwg, rwg, snc, k).weak_form().to_dense()
                            wantE = Ts.T.dot(Eloc).dot(Tr)
                            chk.count((m.id, "efield", k, vname, ibd), n >= 2)
                            chk.cov["obligations_replayed"] += 1
                            e_ = np.abs(Em - wantE).max() / max(1e-3, np.abs(wantE).max())
                            if not (e_ <= TOL):   # NaN counts as a deviation
                                fail("decomposition:electric_field", "electric-field matrix (k=%s, %s, boundary dofs %s) differs from -ik sum R'V1R - 1/(ik) D'V0D by %.3g" % (k, vname, ibd, e_))
            if not quick and closed:
                par.quadrature.regular, par.quadrature.singular = 8, 8
                rwg, snc = api.function_space(g, "RWG", 0), api.function_space(g, "SNC", 0)
                for nm, fac in (("electric_field", b.maxwell.electric_field), ("magnetic_field", b.maxwell.magnetic_field)):
                    A = fac(rwg, rwg, snc, 0.7 + 0.4j).weak_form().to_dense()
                    # same edge space: compare in the RWG numbering (SNC shares dof map and multipliers)
                    asym = np.abs(A - A.T).max() / np.abs(A).max()
                    chk.part("maxwell_symmetry_defect", **{"%s_%s" % (label, nm): float(asym)})
                    if not (asym <= 1e-3):   # NaN counts as a deviation
                        fail("symmetry:%s" % nm, "%s matrix is not complex-symmetric at orders (8,8): %.3g" % (nm, asym))
                par.quadrature.regular, par.quadrature.singular = 4, 4
            if mi < 2:
                chk.sample({"mesh": label, "element_1": {k: m.elem[0][k] for k in ("eopp", "cross", "pdiff")}})
        except Exception as exc:
            import traceback
            fail("exception", "%s: %s | %s" % (type(exc).__name__, exc, traceback.format_exc()[-300:].replace("\n", " | ")))
    chk.cov["rule"] = "one obligation per (mesh, wavenumber, support variant, boundary-dof option) for each decomposition; non-trivial = mesh with >= 2 elements"
    return chk.finish()


if __name__ == "__main__":
    common.main(body)

"""C19 Grid and grid-function export and import round-trip.

Spec: GridIO.tla (Grid -> Export -> File -> Import -> Grid' over the abstract file content; RoundTrip, DataSelected).
TLC enumerates every domain-index vector over a non-contiguous alphabet x format x binary flag; each terminal state is
replayed through bempp_cl.api.export / import_grid / meshio.read in a temporary directory.  The as-is import rule
(all-zero physical tags fall back to geometrical ones) is checked by TLC as a negative configuration.
"""

import os
import shutil
import sys
import tempfile

sys.path.insert(0, os.path.dirname(os.path.dirname(os.path.abspath(__file__))))
from harness import common  # noqa: E402

PID = "C19"


def body():
    chk = common.Check(PID, "model_checking")
    api = common.use_repo()
    import numpy as np
    import meshio

    chk.assume(
        "the abstract file content of GridIO.tla (cell tags, cell/point data keys) is what meshio stores; meshio itself is trusted",
        "binary output must reproduce vertices bitwise, Gmsh ASCII to 1e-15, the ASCII writers of meshio for .vtu/.ply to their printed precision (1e-10); "
        ".ply stores single precision (1e-6)",
        ".vtu/.ply are required to keep vertices and connectivity only (property text)",
    )
    quick = chk.tier == "quick"
    res = common.run_tlc("GridIO", "GridIO.cfg", timeout=600)
    chk.add_tlc("GridIO (ZeroFallsBack = FALSE: the requirement)", res)
    if not res.ok:
        chk.violation("spec:" + str(res.violated), "TLC: GridIO violates %s" % res.violated, {})
        return chk.finish()
    chk.require_coverage(res, ["Export", "Import"])
    asis = common.run_tlc("GridIO", "GridIO_asis.cfg", timeout=600)
    chk.add_tlc("GridIO (ZeroFallsBack = TRUE: import rule as written)", asis, note="expected to violate RoundTrip for all-zero vectors")
    # a grid with 4 elements and irrational-looking coordinates
    V = np.array([[0.1, 0.0, 0.0], [1.0, 0.3, 0.0], [0.0, 1.0 / 3.0, 0.7], [0.25, 0.5, -1.0 / 7.0], [np.pi / 4, np.e / 3, 0.123456789012345]]).T
    E = np.array([[0, 1, 2], [0, 3, 1], [1, 3, 2], [2, 4, 0]]).T
    d = tempfile.mkdtemp(prefix="c19_")
    try:
        obs = res.obligations
        if quick:
            obs = [o for k, o in enumerate(obs) if k % 3 == 0 or sum(o["dom"]) == 0]
        for n, ob in enumerate(obs):
            dom = np.array(ob["dom"], dtype="uint32")
            fmt, binary = ob["fmt"], ob["bin"]
            label = "dom=%s %s %s" % (ob["dom"], fmt, "binary" if binary else "ascii")
            zero = "allzero" if not dom.any() else "nonzero"
            fn = os.path.join(d, "g%d.%s" % (n, fmt))
            chk.count(label, True)
            chk.cov["obligations_replayed"] += 1
            try:
                g = api.Grid(V, E, dom)
                api.export(fn, grid=g, write_binary=binary)
                g2 = api.import_grid(fn)
            except Exception as exc:
                chk.violation("roundtrip:%s:exception" % fmt, "%s: %s: %s" % (label, type(exc).__name__, exc), {"obligation": ob})
                continue
            if g2.elements.shape != g.elements.shape or not np.array_equal(g2.elements, g.elements):
                chk.violation("roundtrip:%s:elements" % fmt, "%s: elements differ after the round trip" % label, {"obligation": ob})
            if g2.vertices.shape != g.vertices.shape:
                chk.violation("roundtrip:%s:vertices" % fmt, "%s: vertex array has shape %s" % (label, g2.vertices.shape), {"obligation": ob})
            else:
                dv = np.abs(g2.vertices - g.vertices).max()
                # binary: bitwise; Gmsh ASCII prints 16 significant digits; meshio's other ASCII writers print 11
                tol = 0.0 if (binary and fmt != "ply") else (1e-15 if fmt == "msh" else 1e-10)
                if dv > tol and not (fmt == "ply" and dv < 1e-6):
                    chk.violation("roundtrip:%s:vertices:%s" % (fmt, "binary" if binary else "ascii"), "%s: vertices differ by %.3g after the round trip" % (label, dv), {"obligation": ob})
                if fmt == "ply" and dv > 1e-15:
                    chk.part("ply_precision", max_vertex_error=float(dv))
            if fmt == "msh" and not np.array_equal(g2.domain_indices, np.array(ob["expect"])):
                chk.violation("roundtrip:msh:domain_indices:%s" % zero, "%s: domain indices %s after the round trip" % (label, g2.domain_indices.tolist()), {"obligation": ob})
            if n % 97 == 0:
                chk.sample(ob)
        # ---- grid functions --------------------------------------------------------------------
        g = api.Grid(V, E, np.array([0, 3, 7, 3], dtype="uint32"))
        rng = np.random.RandomState(chk.seed)
        spaces = {"P1": api.function_space(g, "P", 1, include_boundary_dofs=True), "DP0": api.function_space(g, "DP", 0),
                  "DP1": api.function_space(g, "DP", 1), "RWG": api.function_space(g, "RWG", 0, include_boundary_dofs=True)}
        trans = [None, "real", "imag", "abs", "log_abs", "abs_squared", lambda a: 2.0 * a]
        tnames = ["none", "real", "imag", "abs", "log_abs", "abs_squared", "callable"]
        for sname, sp in spaces.items():
            for cplx in (False, True):
                c = rng.rand(sp.global_dof_count) + 0.5
                if cplx:
                    c = c + 1j * (rng.rand(sp.global_dof_count) + 0.5)
                f = api.GridFunction(sp, coefficients=c)
                for dtype in ("node", "element"):
                    for tn, tr in zip(tnames, trans):
                        for fmt in ("msh", "vtu"):
                            if quick and fmt == "vtu" and tn not in ("none", "abs"):
                                continue
                            label = "%s %s %s transformation=%s .%s" % (sname, "complex" if cplx else "real", dtype, tn, fmt)
                            fn = os.path.join(d, "f_%s_%d_%s_%s.%s" % (sname, cplx, dtype, tn, fmt))
                            chk.count(label, True)
                            try:
                                api.export(fn, grid_function=f, data_type=dtype, transformation=tr, write_binary=True)
                                m = meshio.read(fn)
                            except Exception as exc:
                                chk.violation("gridfunction:%s:%s:exception" % (dtype, "complex" if cplx else "real"), "%s: export raises %s: %s" % (label, type(exc).__name__, str(exc)[:160]), {"case": label})
                                continue
                            raw = f.evaluate_on_vertices() if dtype == "node" else f.evaluate_on_element_centers()
                            mod2 = np.sum(np.abs(raw) ** 2, axis=0, keepdims=True)   # documented meaning of the named transformations
                            want = {"none": raw, "real": np.real(raw), "imag": np.imag(raw), "abs": np.sqrt(mod2), "abs_squared": mod2,
                                    "log_abs": np.log(np.sqrt(mod2)), "callable": 2.0 * raw}[tn].T
                            store = m.point_data if dtype == "node" else {k: v[0] for k, v in m.cell_data.items()}
                            keys = {"real": np.real(want), "imag": np.imag(want)} if np.iscomplexobj(want) else {"data": want}
                            for k, w in keys.items():
                                if k not in store:
                                    chk.violation("gridfunction:%s:keys" % dtype, "%s: key %r missing in the file (keys %s)" % (label, k, sorted(store)), {"case": label})
                                    continue
                                got = np.asarray(store[k]).reshape(np.asarray(w).shape) if np.asarray(store[k]).size == np.asarray(w).size else np.asarray(store[k])
                                if got.shape != np.asarray(w).shape or np.abs(got - w).max() > 1e-14 * max(1.0, np.abs(w).max()):
                                    chk.violation("gridfunction:%s:values" % dtype, "%s: stored %r differs from the %s values" % (label, k, "vertex" if dtype == "node" else "element-centre"), {"case": label})
    finally:
        shutil.rmtree(d, ignore_errors=True)
    chk.cov["rule"] = "one obligation per terminal state of GridIO (domain vector x format x binary flag) + one per (space, real/complex, node/element, transformation, format)"
    return chk.finish()


if __name__ == "__main__":
    common.main(body)

"""C08 Potentials and far fields satisfy their PDEs, normalisation and asymptotics.

Spec: Spaces.tla / SpaceModel.tla decide which (element, local function) slots carry which coefficient for every space variant
(whole grid, segments, support elements, boundary-dof options); Symmetry.tla's translations give the grid pairs of the phase
law.  The analytic content of the property (closed-form kernels, the limit r -> infinity, differential operators) is not
something a TLA+ model computes: it is evaluated numerically here, on top of the discrete structure the specification decides.
Clauses
  (a) every potential and far-field value equals the closed-form kernel sum over the library's own quadrature points, with the
      local coefficients T c given by the coefficient map validated against Spaces.tla                      (to rounding)
  (b) translating the grid by t multiplies the far field in direction x by exp(-ik x.t)                      (to rounding)
  (c) far field = lim r exp(-ikr) potential(r x), evaluated at r = 400 diameters                            (O(1/r))
  (d) Laplace / Helmholtz / modified Helmholtz potentials satisfy their PDE and the Maxwell potentials curl E = ik H,
      curl H = -ik E, div E = div H = 0, by central differences with two step sizes                         (finite-difference accuracy)
"""

import os
import sys

sys.path.insert(0, os.path.dirname(os.path.dirname(os.path.abspath(__file__))))
from harness import common  # noqa: E402

PID = "C08"
TOL = 1e-10


def body():
    chk = common.Check(PID, "exploration")
    api = common.use_repo()
    import numpy as np
    from bempp_cl.api.integration.triangle_gauss import rule
    from harness import replay_grid as rg, replay_space as rs
    import c09

    chk.assume(
        "closed-form kernels 1/(4 pi r), exp(ikr)/(4 pi r), exp(-wr)/(4 pi r), their normal derivatives and gradients, and the far-field kernels "
        "exp(-ik x.y)/(4 pi), -ik (x.n) exp(-ik x.y)/(4 pi) are evaluated with numpy; space.evaluate gives the local basis functions (validated by C09/C13)",
        "the limit clause is evaluated at r = 400 D (D the grid diameter; r = 600 / Im k if that is smaller, so that exp(Im k r) stays representable): difference bounded by 5 (1 + |k| D) D / r; the PDE clauses by central differences "
        "with steps h and h/2: combined by Richardson extrapolation: the residual must be below 5e-3 of the size of its terms (measured on the current tree: at most 1.2e-3 at twice the step on the thinnest mesh of the thorough universe; a wrong kernel gives O(1))",
        "points at least one grid diameter away from the surface",
        "the Maxwell equations for the potentials are judged for densities without flux through the boundary of their support (whole closed grid, or no boundary dofs)",
    )
    quick = chk.tier == "quick"
    par = api.GLOBAL_PARAMETERS
    par.quadrature.regular, par.quadrature.singular = 4, 4
    kw = dict(bases=["OCT", "STRIP8"] if quick else ["OCT", "STRIP8", "TET", "DISJ"], drop=0 if quick else 1, kinds=["DP0", "DP1", "P1", "RWG"], rot=1)
    res = c09.tlc_spaces(chk, kw, "c08")
    if not res.ok:
        chk.violation("spec:" + str(res.violated), "TLC: SpaceModel violates %s" % res.violated, {})
        return chk.finish()
    chk.require_coverage(res, ["StartP1", "RWGFinish", "ColourDone"])
    pot, far = api.operators.potential, api.operators.far_field
    rng = np.random.RandomState(chk.seed)
    order = 4
    qp, qw = rule(order)
    nq = len(qw)
    ks = [0.9, 0.7 + 0.3j] if quick else [0.9, 0.7 + 0.3j, -0.8 + 0.2j, 1.6]
    w0 = 0.6
    by_grid = {}
    for ob in res.obligations:
        by_grid.setdefault((ob["base"], tuple(ob["sub"]), ob["rot"]), []).append(ob)
    worst = {"limit": 0.0, "pde": 0.0}

    def geometry(grid, space):
        """quadrature points, weights x J, normals (with multipliers) of the support elements; basis values per element"""
        els = [int(e) for e in np.flatnonzero(space.support)]
        Y, WJ, N, B = [], [], [], []
        for e in els:
            v = grid.vertices[:, grid.elements[:, e]]
            Y.append(v[:, [0]] * (1 - qp[0] - qp[1]) + v[:, [1]] * qp[0] + v[:, [2]] * qp[1])
            WJ.append(qw * grid.integration_elements[e])
            N.append(np.repeat((grid.normals[e] * space.normal_multipliers[e])[:, None], nq, axis=1))
            B.append(np.asarray(space.evaluate(e, qp)))           # comp x local x point, multipliers included
        return els, Y, WJ, N, B

    def density(space, c, els, B):
        """values of the function with global coefficients c at the quadrature points (comp x point per element)"""
        out = []
        for n, e in enumerate(els):
            loc = np.array([c[space.local2global[e, i]] if space.local_multipliers[e, i] != 0 else 0.0 for i in range(B[n].shape[1])])
            out.append(np.einsum("cip,i->cp", B[n], loc))
        return out

    def surface_div(grid, space, c, els):
        """surface divergence of an RWG-type function per element (constant): f = a (y - p) in the plane, div f = 2 a"""
        out = []
        P2 = np.array([[0.2, 0.5], [0.3, 0.1]])
        for e in els:
            v = grid.vertices[:, grid.elements[:, e]]
            y = v[:, [0]] * (1 - P2[0] - P2[1]) + v[:, [1]] * P2[0] + v[:, [2]] * P2[1]
            b_ = np.asarray(space.evaluate(e, P2))
            loc = np.array([c[space.local2global[e, i]] if space.local_multipliers[e, i] != 0 else 0.0 for i in range(b_.shape[1])])
            f = np.einsum("cip,i->cp", b_, loc)
            dy = y[:, 0] - y[:, 1]
            out.append(2.0 * (f[:, 0] - f[:, 1]).dot(dy) / dy.dot(dy))
        return out

    def G(k, r):
        return np.exp(1j * k * r) / (4 * np.pi * r)

    def dG(k, r):      # f'(r)
        return np.exp(1j * k * r) * (1j * k * r - 1) / (4 * np.pi * r ** 2)

    for gkey, obs in sorted(by_grid.items()):
        grid = rg.build_grid(api, obs[0])
        Dm = float(np.max(np.linalg.norm(grid.vertices[:, :, None] - grid.vertices[:, None, :], axis=0)))
        cen = grid.vertices.mean(axis=1)
        dirs = np.array([[1.0, 0.0, 0.0], [0.0, -1.0, 0.0], [0.6, 0.0, 0.8], [1.0, 2.0, 2.0]]).T
        dirs = dirs / np.linalg.norm(dirs, axis=0)
        X = cen[:, None] + dirs * np.array([2.2, 2.6, 3.1, 4.0]) * Dm
        spaces = {}
        for ob in obs:
            sig = c09.sig_of(ob)
            problems = []
            try:
                sp = rs.make_space(api, grid, ob)
                rs.check_direct_space(api, ob, grid, sp, lambda a, d: problems.append((a, d)), lambda d: None)
            except Exception as exc:
                problems.append(("exception", "%s: %s" % (type(exc).__name__, exc)))
            if problems:
                chk.violation(rs.vkey(ob["kind"], "T:" + problems[0][0], ob), "coefficient map of %s does not meet Spaces.tla: %s" % (sig, problems[0][1]), {})
                continue
            # spaces whose functions carry no flux through the boundary of their support (premise of the Maxwell equations for the potentials)
            fluxfree = (ob["mode"] == "all" and bool(grid.edge_on_boundary.sum() == 0)) or not ob["ibd"]
            spaces.setdefault(ob["kind"], []).append((sig, sp, fluxfree))
        for kind, lst in sorted(spaces.items()):
            picks = lst if not quick else lst[:: max(1, len(lst) // 5)]
            picks = sorted(picks, key=lambda q: not q[2])      # a flux-free space first: the PDE clauses are judged on the first space
            for n_sp, (sig, sp, fluxfree) in enumerate(picks):
                def fail(key, detail, sig=sig, gkey=gkey):
                    chk.violation(key, "%s on %s" % (detail, sig), {"space": sig, "grid": list(map(str, gkey))})

                try:
                    c = rng.randint(-3, 4, sp.global_dof_count) + 1j * rng.randint(-3, 4, sp.global_dof_count)
                    if not np.any(c):
                        c[0] = 1.0
                    f = api.GridFunction(sp, coefficients=c)
                    els, Y, WJ, N, B = geometry(grid, sp)
                    dens = density(sp, c, els, B)
                    scalar = kind != "RWG"

                    def ksum(kern):
                        """sum over elements and points of kern(x, y, n, density, weight) for every evaluation point"""
                        out = []
                        for x in X.T:
                            acc = 0
                            for n_, e in enumerate(els):
                                acc = acc + kern(x, Y[n_], N[n_], dens[n_], WJ[n_], n_)
                            out.append(acc)
                        return np.array(out).T

                    def cmp(name, got, want, tol=TOL):
                        got, want = np.asarray(got), np.asarray(want)
                        chk.count((sig, name), True)
                        chk.cov["obligations_replayed"] += 1
                        if got.shape != want.shape:
                            got = got.reshape(want.shape)
                        e_ = np.abs(got - want).max() / max(1e-12, np.abs(want).max())
                        if not (e_ <= tol):   # NaN counts as a deviation
                            fail("kernel_sum:%s" % name, "%s differs from the closed-form kernel sum over the quadrature points by %.3g" % (name, e_))

                    if scalar:
                        def sl(k):
                            return lambda x, y, n, d, w, n_: (G(k, np.linalg.norm(x[:, None] - y, axis=0)) * d[0] * w).sum()

                        def dl(k):
                            def kern(x, y, n, d, w, n_):
                                df = x[:, None] - y
                                r = np.linalg.norm(df, axis=0)
                                return (-dG(k, r) * (df * n).sum(axis=0) / r * d[0] * w).sum()     # d/dn_y = f'(r) (y - x).n / r
                            return kern

                        cmp("potential.laplace.single_layer", pot.laplace.single_layer(sp, X).evaluate(f), ksum(sl(0.0))[None, :])
                        cmp("potential.laplace.double_layer", pot.laplace.double_layer(sp, X).evaluate(f), ksum(dl(0.0))[None, :])
                        cmp("potential.modified_helmholtz.single_layer", pot.modified_helmholtz.single_layer(sp, X, w0).evaluate(f), ksum(sl(1j * w0))[None, :])
                        cmp("potential.modified_helmholtz.double_layer", pot.modified_helmholtz.double_layer(sp, X, w0).evaluate(f), ksum(dl(1j * w0))[None, :])
                        for k in ks:
                            cmp("potential.helmholtz.single_layer k=%s" % k, pot.helmholtz.single_layer(sp, X, k).evaluate(f), ksum(sl(k))[None, :])
                            cmp("potential.helmholtz.double_layer k=%s" % k, pot.helmholtz.double_layer(sp, X, k).evaluate(f), ksum(dl(k))[None, :])
                            # far fields
                            fsl = np.array([sum((np.exp(-1j * k * xh.dot(Y[n_])) / (4 * np.pi) * dens[n_][0] * WJ[n_]).sum() for n_ in range(len(els))) for xh in dirs.T])
                            fdl = np.array([sum((-1j * k * xh.dot(N[n_]) * np.exp(-1j * k * xh.dot(Y[n_])) / (4 * np.pi) * dens[n_][0] * WJ[n_]).sum() for n_ in range(len(els))) for xh in dirs.T])
                            Fs = np.asarray(far.helmholtz.single_layer(sp, dirs, k).evaluate(f)).ravel()
                            Fd = np.asarray(far.helmholtz.double_layer(sp, dirs, k).evaluate(f)).ravel()
                            cmp("far_field.helmholtz.single_layer k=%s" % k, Fs, fsl)
                            cmp("far_field.helmholtz.double_layer k=%s" % k, Fd, fdl)
                            # (c) limit
                            if n_sp == 0:
                                r_ = min(400.0 * Dm, 600.0 / k.imag) if np.imag(k) > 0 else 400.0 * Dm      # exp(Im k r) must stay representable
                                bound = 5 * (1 + abs(k) * Dm) * Dm / r_
                                for nm, P_, F_ in (("single_layer", pot.helmholtz.single_layer, Fs), ("double_layer", pot.helmholtz.double_layer, Fd)):
                                    u = np.asarray(P_(sp, dirs * r_, k).evaluate(f)).ravel()
                                    lim = r_ * np.exp(-1j * k * r_) * u
                                    e_ = np.abs(lim - F_).max() / max(1e-12, np.abs(F_).max())
                                    if not np.isfinite(e_):
                                        raise common.MachineryError("limit clause not evaluable (overflow) for k = %s at r = %g" % (k, r_))
                                    worst["limit"] = max(worst["limit"], float(e_ / bound))
                                    chk.count((sig, "limit", nm, k), True)
                                    if not (e_ <= bound):   # NaN counts as a deviation
                                        fail("limit:helmholtz.%s" % nm, "far field differs from r exp(-ikr) potential(r x) at r = %.0f D by %.3g (bound %.3g, k = %s)" % (r_ / Dm, e_, bound, k))
                    else:
                        divs = surface_div(grid, sp, c, els)

                        def efield(k):
                            def kern(x, y, n, d, w, n_):
                                df = x[:, None] - y
                                r = np.linalg.norm(df, axis=0)
                                grad = dG(k, r) * df / r                     # gradient with respect to x
                                return (1j * k * G(k, r) * d * w).sum(axis=1) - (1.0 / (1j * k)) * (grad * divs[n_] * w).sum(axis=1)
                            return kern

                        def mfield(k):
                            def kern(x, y, n, d, w, n_):
                                df = x[:, None] - y
                                r = np.linalg.norm(df, axis=0)
                                grad = dG(k, r) * df / r
                                return (np.cross(grad.T, d.T).T * w).sum(axis=1)
                            return kern

                        for k in ks:
                            cmp("potential.maxwell.electric_field k=%s" % k, pot.maxwell.electric_field(sp, X, k).evaluate(f), ksum(efield(k)))
                            cmp("potential.maxwell.magnetic_field k=%s" % k, pot.maxwell.magnetic_field(sp, X, k).evaluate(f), ksum(mfield(k)))
                            fe = np.array([sum(((np.exp(-1j * k * xh.dot(Y[n_])) / (4 * np.pi)) * (1j * k * dens[n_] - xh[:, None] * divs[n_]) * WJ[n_]).sum(axis=1) for n_ in range(len(els))) for xh in dirs.T]).T
                            fm = np.array([sum(((np.exp(-1j * k * xh.dot(Y[n_])) / (4 * np.pi)) * 1j * k * np.cross(xh, dens[n_].T).T * WJ[n_]).sum(axis=1) for n_ in range(len(els))) for xh in dirs.T]).T
                            Fe = np.asarray(far.maxwell.electric_field(sp, dirs, k).evaluate(f))
                            Fm = np.asarray(far.maxwell.magnetic_field(sp, dirs, k).evaluate(f))
                            cmp("far_field.maxwell.electric_field k=%s" % k, Fe, fe)
                            cmp("far_field.maxwell.magnetic_field k=%s" % k, Fm, fm)
                            if n_sp == 0:
                                r_ = min(400.0 * Dm, 600.0 / k.imag) if np.imag(k) > 0 else 400.0 * Dm      # exp(Im k r) must stay representable
                                bound = 5 * (1 + abs(k) * Dm) * Dm / r_
                                for nm, P_, F_ in (("electric_field", pot.maxwell.electric_field, Fe), ("magnetic_field", pot.maxwell.magnetic_field, Fm)):
                                    u = np.asarray(P_(sp, dirs * r_, k).evaluate(f))
                                    lim = r_ * np.exp(-1j * k * r_) * u
                                    e_ = np.abs(lim - F_).max() / max(1e-12, np.abs(F_).max())
                                    if not np.isfinite(e_):
                                        raise common.MachineryError("limit clause not evaluable (overflow) for k = %s at r = %g" % (k, r_))
                                    worst["limit"] = max(worst["limit"], float(e_ / bound))
                                    chk.count((sig, "limit", nm, k), True)
                                    if not (e_ <= bound):   # NaN counts as a deviation
                                        fail("limit:maxwell.%s" % nm, "far field differs from r exp(-ikr) potential(r x) at r = %.0f D by %.3g (bound %.3g, k = %s)" % (r_ / Dm, e_, bound, k))
                    # ---- normals of one domain swapped: the double-layer type kernels take the normal of the element with its multiplier
                    doms = sorted(set(int(x) for x in grid.domain_indices))
                    if scalar and len(doms) > 1 and n_sp % 2 == 0:
                        ob_ = [o for o in obs if c09.sig_of(o) == sig][0]
                        sps = rs.make_space(api, grid, ob_, swapped=[doms[-1]])
                        fs_ = api.GridFunction(sps, coefficients=c)
                        els_s, Ys, WJs, Ns, Bs = geometry(grid, sps)
                        dens_s = density(sps, c, els_s, Bs)
                        save = (els, Y, WJ, N, B, dens)
                        els, Y, WJ, N, B, dens = els_s, Ys, WJs, Ns, Bs, dens_s
                        try:
                            cmp("potential.laplace.double_layer [swapped normals]", pot.laplace.double_layer(sps, X).evaluate(fs_), ksum(dl(0.0))[None, :])
                            cmp("potential.helmholtz.double_layer [swapped normals] k=%s" % ks[1], pot.helmholtz.double_layer(sps, X, ks[1]).evaluate(fs_), ksum(dl(ks[1]))[None, :])
                            fdl = np.array([sum((-1j * ks[1] * xh.dot(N[n_]) * np.exp(-1j * ks[1] * xh.dot(Y[n_])) / (4 * np.pi) * dens[n_][0] * WJ[n_]).sum() for n_ in range(len(els))) for xh in dirs.T])
                            cmp("far_field.helmholtz.double_layer [swapped normals] k=%s" % ks[1], np.asarray(far.helmholtz.double_layer(sps, dirs, ks[1]).evaluate(fs_)).ravel(), fdl)
                        finally:
                            els, Y, WJ, N, B, dens = save
                    # ---- (b) translation phase law (first and last space of each kind)
                    if n_sp in (0, len(picks) - 1):
                        t = np.array([3.0, -6.0, 1.0])
                        g2 = api.Grid(grid.vertices + t[:, None], grid.elements, grid.domain_indices)
                        sp2 = rs.make_space(api, g2, [o for o in obs if c09.sig_of(o) == sig][0])
                        f2 = api.GridFunction(sp2, coefficients=c)
                        for k in ks:
                            phase = np.exp(-1j * k * dirs.T.dot(t))
                            ops = (("helmholtz.single_layer", far.helmholtz.single_layer), ("helmholtz.double_layer", far.helmholtz.double_layer)) if scalar else (
                                ("maxwell.electric_field", far.maxwell.electric_field), ("maxwell.magnetic_field", far.maxwell.magnetic_field))
                            for nm, F in ops:
                                a0 = np.asarray(F(sp, dirs, k).evaluate(f))
                                a1 = np.asarray(F(sp2, dirs, k).evaluate(f2))
                                chk.count((sig, "translation", nm, k), True)
                                e_ = np.abs(a1 - a0 * phase[None, :]).max() / max(1e-12, np.abs(a0 * phase[None, :]).max())
                                if not (e_ <= TOL):   # NaN counts as a deviation
                                    fail("translation:%s" % nm, "far field of the grid translated by t is not exp(-ik x.t) times the original (k = %s): %.3g" % (k, e_))
                    # ---- (d) PDEs by central differences (first space of each kind)
                    if n_sp == 0:
                        x0 = X[:, :2]
                        for h in (0.01 * Dm,):
                            def fd(op, h_):
                                """values at x0 and at the 6 shifted points: returns (u, lap, grad components...)"""
                                pts = [x0]
                                for d_ in range(3):
                                    e3 = np.zeros((3, 1))
                                    e3[d_] = h_
                                    pts += [x0 + e3, x0 - e3]
                                P = np.hstack(pts)
                                U = np.asarray(op(P).evaluate(f))
                                m = x0.shape[1]
                                u0 = U[:, :m]
                                plus = [U[:, (1 + 2 * d_) * m:(2 + 2 * d_) * m] for d_ in range(3)]
                                minus = [U[:, (2 + 2 * d_) * m:(3 + 2 * d_) * m] for d_ in range(3)]
                                lap = sum(plus[d_] + minus[d_] - 2 * u0 for d_ in range(3)) / h_ ** 2
                                grads = [(plus[d_] - minus[d_]) / (2 * h_) for d_ in range(3)]    # d/dx_d of every component
                                return u0, lap, grads

                            def judge(name, resid, scale):
                                r1 = np.abs(resid).max() / max(1e-14, scale)
                                worst["pde"] = max(worst["pde"], float(r1))
                                chk.count((sig, "pde", name), True)
                                if not (r1 <= 5e-3):   # NaN counts as a deviation
                                    fail("pde:%s" % name.split(" ")[0], "%s: finite-difference residual %.3g of the size of its terms (step %.3g)" % (name, r1, h / 2))

                            if scalar:
                                for nm, mk, k2 in [("laplace.single_layer", lambda P: pot.laplace.single_layer(sp, P), 0.0), ("laplace.double_layer", lambda P: pot.laplace.double_layer(sp, P), 0.0),
                                                   ("modified_helmholtz.single_layer", lambda P: pot.modified_helmholtz.single_layer(sp, P, w0), -w0 ** 2),
                                                   ("helmholtz.single_layer", lambda P: pot.helmholtz.single_layer(sp, P, ks[1]), ks[1] ** 2),
                                                   ("helmholtz.double_layer", lambda P: pot.helmholtz.double_layer(sp, P, ks[1]), ks[1] ** 2)]:
                                    u0, lap, _ = fd(mk, h / 2)
                                    u0b, lapb, _ = fd(mk, h)
                                    # Richardson: second-order differences, (4 L(h/2) - L(h)) / 3 removes the h^2 term
                                    lapr = (4 * lap - lapb) / 3
                                    judge("%s (Delta u + k^2 u = 0)" % nm, lapr + k2 * u0, np.abs(lap).max() + abs(k2) * np.abs(u0).max() + np.abs(u0).max() / Dm ** 2)
                            elif fluxfree:
                                k = ks[1]
                                def curl_div(mk):
                                    u0, _, g1 = fd(mk, h / 2)
                                    _, _, g2_ = fd(mk, h)
                                    g = [(4 * a - b_) / 3 for a, b_ in zip(g1, g2_)]      # g[d][c] = d u_c / d x_d
                                    curl = np.array([g[1][2] - g[2][1], g[2][0] - g[0][2], g[0][1] - g[1][0]])
                                    div = g[0][0] + g[1][1] + g[2][2]
                                    return u0, curl, div
                                E0, cE, dE = curl_div(lambda P: pot.maxwell.electric_field(sp, P, k))
                                H0, cH, dH = curl_div(lambda P: pot.maxwell.magnetic_field(sp, P, k))
                                sE, sH = np.abs(E0).max() * (abs(k) + 1 / Dm), np.abs(H0).max() * (abs(k) + 1 / Dm)
                                judge("maxwell (curl E = ik H)", cE - 1j * k * H0, max(sE, abs(k) * np.abs(H0).max()))
                                judge("maxwell (curl H = -ik E)", cH + 1j * k * E0, max(sH, abs(k) * np.abs(E0).max()))
                                judge("maxwell (div E = 0)", dE, sE)
                                judge("maxwell (div H = 0)", dH, sH)
                except Exception as exc:
                    import traceback
                    fail("exception", "%s: %s | %s" % (type(exc).__name__, exc, traceback.format_exc()[-300:].replace("\n", " | ")))
    chk.cov["worst_limit_defect_over_bound"] = worst["limit"]
    chk.cov["worst_pde_residual"] = worst["pde"]
    chk.sample({"grid": list(map(str, sorted(by_grid)[0])), "points": "centre + direction x (2.2 .. 4.0) diameters", "wavenumbers": [str(k) for k in ks]})
    chk.cov["rule"] = "one evaluation per (space obligation, operator, wavenumber) for the kernel sums; per (kind, operator, wavenumber) for the phase law, the limit and the PDE clauses"
    return chk.finish()


if __name__ == "__main__":
    common.main(body)
